#!/bin/bash
# apply a seeded change to /repo, run the given property checks (quick), revert. usage: tools_run_seeded.sh <seed dir> <Cxx> [Cyy...]
seed=$1; shift
cd /repo && [ -z "$(git status --short)" ] || { echo 'uncommitted changes in /repo: commit first'; exit 2; }
cd /repo && git apply $seed/patch.diff || { echo "cannot apply $seed"; exit 2; }
for p in "$@"; do
  out=$(cd /verif && ./check $p quick 2>&1); rc=$?
  nv=$(echo "$out" | grep -c '^VIOLATION')
  echo "seed=$(basename $seed) check=$p exit=$rc violations=$nv"
  echo "$out" | grep '^VIOLATION' | head -5 | sed 's/^/    /' | cut -c1-260
done
cd /repo && git apply -R $seed/patch.diff && git status --short | head -3

package main

// govc check <Cxx> quick|thorough : the registered property check.

import (
	"encoding/json"
	"fmt"
	"os"
	"path/filepath"
	"regexp"
	"sort"
	"strconv"
	"strings"
	"sync"
	"time"

	"golang.org/x/tools/go/ssa"
)

type propFile struct {
	ID        string      `json:"id"`
	Packages  []string    `json:"packages"`
	Select    []*selector `json:"select"`
	Floor     int         `json:"floor"`
	QuickMs   int         `json:"timeout_quick_ms"`
	ThorMs    int         `json:"timeout_thorough_ms"`
	Level     string      `json:"level"`
	Assume    []string    `json:"assumptions"`
	NotDecided []string   `json:"not_decided"`
	Bounded   []string    `json:"bounded"`
	Extra     []string    `json:"extra"` // additional analyses: "globals" (C20 F1), "registry" (C03a)
	Explain   string      `json:"explanation"`
	Allow     map[string]string `json:"allow"` // obligation-name regexp -> reason: reported as ASSUMED (and listed in the evidence), not as a violation
}

type knownFinding struct {
	Property   string `json:"property"`
	Obligation string `json:"obligation"`
	Input      string `json:"input,omitempty"`
	What       string `json:"what"`
}

type knownFile struct {
	Findings []knownFinding           `json:"findings"`
	Fixed    []map[string]interface{} `json:"fixed"`
}

func loadKnown() *knownFile {
	kf := &knownFile{}
	b, err := os.ReadFile("/verif/known_findings.json")
	if err == nil {
		json.Unmarshal(b, kf)
	}
	return kf
}

func cmdCheck(args []string) {
	if len(args) < 1 {
		fmt.Fprintln(os.Stderr, "usage: govc check Cxx [quick|thorough]")
		os.Exit(2)
	}
	id := args[0]
	tier := "quick"
	if len(args) > 1 {
		tier = args[1]
	}
	if t := os.Getenv("VERIF_TIER"); t == "quick" || t == "thorough" {
		if len(args) < 2 {
			tier = t
		}
	}
	seed := 0
	if s := os.Getenv("VERIF_SEED"); s != "" {
		seed, _ = strconv.Atoi(s)
	}
	t0 := time.Now()
	var pf propFile
	b, err := os.ReadFile(filepath.Join("/verif/props", id+".json"))
	if err != nil {
		fmt.Fprintln(os.Stderr, "no property file:", err)
		os.Exit(2)
	}
	if err := json.Unmarshal(b, &pf); err != nil {
		fmt.Fprintln(os.Stderr, "bad property file:", err)
		os.Exit(2)
	}
	timeout := pf.QuickMs
	if timeout == 0 {
		timeout = 10000
	}
	if tier == "thorough" {
		timeout = pf.ThorMs
		if timeout == 0 {
			timeout = 60000
		}
		useCache = false
	}
	replayDir := filepath.Join("/verif/replays", id)
	os.MkdirAll(replayDir, 0o755)
	violations := 0
	for rx, why := range pf.Allow {
		pf.Assume = append(pf.Assume, "allowed ("+rx+"): "+why)
	}
	assumedCount := 0
	report := func(name string, payload map[string]interface{}, confirmed bool) {
		for rx, why := range pf.Allow {
			if ok, _ := regexp.MatchString(rx, name); ok {
				fmt.Printf("ASSUMED: property=%s %s (%s)\n", id, name, why)
				assumedCount++
				return
			}
		}
		violations++
		slug := symSafe(name)
		if len(slug) > 150 {
			slug = slug[:150]
		}
		path := filepath.Join(replayDir, slug+".json")
		payload["property"] = id
		payload["obligation"] = name
		jb, _ := json.MarshalIndent(payload, "", " ")
		os.WriteFile(path, jb, 0o644)
		if confirmed {
			fmt.Printf("VIOLATION property=%s replay=%s\n", id, path)
		} else {
			fmt.Printf("VIOLATION property=%s replay=%s no-failing-input-found\n", id, path)
		}
	}

	ctx, err := loadProgram(repoDir(), pf.Packages)
	ev := map[string]interface{}{}
	if err != nil {
		report("load", map[string]interface{}{"error": err.Error(), "what": "the packages under contract no longer load/type-check with -tags verif"}, false)
		writeEvidence(id, tier, seed, &pf, ev, nil, nil, violations, t0, nil)
		os.Exit(1)
	}
	for _, ce := range ctx.cs.Errors {
		report("contract-file:"+ce, map[string]interface{}{"error": ce}, false)
	}
	var fns []*ssa.Function
	for _, k := range ctx.sortedFuncKeys() {
		for _, s := range pf.Select {
			if s.re == nil {
				s.re = regexp.MustCompile(s.Funcs)
			}
			if s.re.MatchString(k) {
				if s.Exclude != "" {
					if s.reEx == nil {
						s.reEx = regexp.MustCompile(s.Exclude)
					}
					if s.reEx.MatchString(k) {
						continue
					}
				}
				fns = append(fns, ctx.funcs[k])
				break
			}
		}
	}
	results := verifyAll(ctx, fns, pf.Select, timeout, true)
	kf := loadKnown()
	known := map[string]knownFinding{}
	for _, f := range kf.Findings {
		if f.Property == id {
			known[f.Obligation] = f
		}
	}
	var all []*Obl
	nSel, nOK := 0, 0
	knownHit := map[string]bool{}
	type failT struct {
		r *FuncResult
		i int
		o *Obl
	}
	var fails []failT
	for _, r := range results {
		for i, o := range r.Obls {
			if o.Status == "" {
				continue
			}
			nSel++
			all = append(all, o)
			if o.Status == "unsat" {
				nOK++
				continue
			}
			if f, ok := known[o.Name]; ok {
				fmt.Printf("KNOWN-FINDING: property=%s %s %s\n", id, o.Name, f.What)
				o.Assumed = true
				knownHit[o.Name] = true
				continue
			}
			fails = append(fails, failT{r, i, o})
		}
	}
	// undecided obligations (unknown/timeout, typically under machine load) get a final, sequential attempt with the machine
	// to themselves and one and a half times the portfolio timeout (at most 12 obligations); only what is still undecided then is reported
	if len(fails) > 0 && len(fails) <= 12 {
		var still []failT
		for _, f := range fails {
			if f.o.Status == "sat" || f.o.Status == "error" {
				still = append(still, f)
				continue
			}
			portfolio(f.r, f.i, timeout*3/2)
			if f.o.Status == "unsat" {
				f.o.Solver += " (final retry)"
				nOK++
				continue
			}
			still = append(still, f)
		}
		fails = still
	}
	// replay counterexamples on the real code (in parallel, capped)
	const maxReplays = 16
	replays := make([]map[string]interface{}, len(fails))
	var wg sync.WaitGroup
	rsem := make(chan struct{}, 6)
	nrep := 0
	for k, f := range fails {
		if f.o.Status != "sat" {
			continue
		}
		if nrep >= maxReplays {
			replays[k] = map[string]interface{}{"confirmed": false, "note": fmt.Sprintf("replay skipped: more than %d counterexamples in this run", maxReplays)}
			continue
		}
		nrep++
		wg.Add(1)
		go func(k int, f failT) {
			defer wg.Done()
			rsem <- struct{}{}
			defer func() { <-rsem }()
			defer func() {
				if x := recover(); x != nil {
					replays[k] = map[string]interface{}{"confirmed": false, "note": fmt.Sprint("replay generator error: ", x)}
				}
			}()
			replays[k] = replayObligation(ctx, f.r, f.i, f.o)
		}(k, f)
	}
	wg.Wait()
	for k, f := range fails {
		o := f.o
		payload := map[string]interface{}{"kind": o.Kind, "function": o.Func, "position": o.PosStr, "clause": o.Text, "solver": o.Solver, "status": o.Status,
			"solver_output": truncate(o.Output+o.Model, 6000), "fatal": f.r.Fatal}
		confirmed := false
		if replays[k] != nil {
			payload["replay"] = replays[k]
			if c, ok := replays[k]["confirmed"].(bool); ok && c {
				confirmed = true
			}
		}
		report(o.Name, payload, confirmed)
	}
	// vacuity: contracts must be satisfiable, some return must be reachable
	vac := vacuityChecks(results)
	for _, v := range vac {
		report("vacuity:"+v, map[string]interface{}{"what": "contract of " + v + " is contradictory (no execution satisfies requires/invariants and reaches a return)"}, false)
	}
	extraEv := map[string]interface{}{}
	for _, x := range pf.Extra {
		runExtra(ctx, x, id, extraEv, report, known)
	}
	// allowed (assumed) items are neither obligations nor discharged: they are listed under the assumptions
	if assumedCount > 0 {
		extraEv["extra_obligations"] = intOf(extraEv["extra_obligations"]) - assumedCount
		extraEv["assumed_items"] = assumedCount
	}
	if nSel+intOf(extraEv["extra_obligations"]) < pf.Floor {
		report("floor", map[string]interface{}{"what": fmt.Sprintf("only %d obligations generated, floor is %d: contracts or functions disappeared", nSel, pf.Floor)}, false)
	}
	writeEvidence(id, tier, seed, &pf, extraEv, results, all, violations, t0, ctx)
	if violations > 0 {
		os.Exit(1)
	}
	fmt.Printf("OK property=%s obligations=%d discharged=%d known=%d wall=%.1fs\n", id, nSel+intOf(extraEv["extra_obligations"]), nOK+intOf(extraEv["extra_discharged"]), len(knownHit), time.Since(t0).Seconds())
}

func intOf(x interface{}) int {
	if v, ok := x.(int); ok {
		return v
	}
	return 0
}

func vacuityChecks(results []*FuncResult) []string {
	var bad []string
	type job struct {
		r *FuncResult
	}
	ch := make(chan string, len(results))
	n := 0
	for _, r := range results {
		if len(r.Fatal) > 0 || len(r.Script) == 0 || len(r.RetReach) == 0 {
			continue
		}
		n++
		go func(r *FuncResult) {
			solverSem <- struct{}{}
			defer func() { <-solverSem }()
			var b strings.Builder
			b.WriteString(header())
			for _, d := range r.Decl {
				b.WriteString(d + "\n")
			}
			for _, l := range r.Script {
				if strings.HasPrefix(l, ";;OBL ") {
					continue
				}
				b.WriteString(l + "\n")
			}
			fmt.Fprintf(&b, "(assert %s)\n(check-sat)\n", or(r.RetReach...))
			script := b.String()
			if _, ok := cacheGet("vac:" + script); ok {
				ch <- ""
				return
			}
			f := tmpFile("vac", script)
			defer os.Remove(f)
			out, _ := runSolver(contextBG(), solvers[0], f, 3000, false)
			first := strings.TrimSpace(strings.SplitN(out, "\n", 2)[0])
			if first == "unsat" {
				ch <- r.Key
				return
			}
			if first == "sat" {
				cachePut("vac:"+script, "sat")
			}
			ch <- ""
		}(r)
	}
	for i := 0; i < n; i++ {
		if s := <-ch; s != "" {
			bad = append(bad, s)
		}
	}
	sort.Strings(bad)
	return bad
}

func writeEvidence(id, tier string, seed int, pf *propFile, extra map[string]interface{}, results []*FuncResult, all []*Obl, violations int, t0 time.Time, ctx *Ctx) {
	level := pf.Level
	if level == "" {
		level = "proof"
	}
	nObl, nDis, nKnown := 0, 0, 0
	bySolver := map[string]int{}
	byKind := map[string]int{}
	secs := 0.0
	var samples []interface{}
	var undischarged []interface{}
	for _, o := range all {
		nObl++
		k := o.Kind
		if i := strings.Index(k, ":"); i >= 0 {
			k = k[:i]
		}
		byKind[k]++
		secs += o.Secs
		if o.Status == "unsat" {
			nDis++
			bySolver[strings.TrimSuffix(o.Solver, " (cached)")]++
			if len(samples) < 12 && (k == "post" || k == "inv-pres" || len(samples) < 4) {
				samples = append(samples, map[string]interface{}{"obligation": o.Name, "kind": o.Kind, "clause": o.Text, "backend": o.Solver, "seconds": round3(o.Secs)})
			}
		} else {
			if o.Assumed {
				nKnown++
			}
			undischarged = append(undischarged, map[string]interface{}{"obligation": o.Name, "status": o.Status, "known_finding": o.Assumed})
		}
	}
	nObl += intOf(extra["extra_obligations"])
	nDis += intOf(extra["extra_discharged"])
	var funcs []interface{}
	usedContracts := map[string]bool{}
	noContract := map[string]bool{}
	inlined := map[string]bool{}
	definesAll := map[string]bool{}
	absAll := map[string]bool{}
	notes := map[string]bool{}
	notReach := []interface{}{}
	for _, r := range results {
		n := 0
		for _, o := range r.Obls {
			if o.Status != "" {
				n++
			}
		}
		if len(r.Fatal) > 0 {
			notReach = append(notReach, map[string]interface{}{"function": r.Key, "why": r.Fatal})
		}
		funcs = append(funcs, map[string]interface{}{"function": r.Key, "obligations_selected": n, "ssa_instructions": r.Instrs})
		for _, u := range r.Used {
			usedContracts[u] = true
		}
		for _, u := range r.NoContr {
			noContract[u] = true
		}
		for _, u := range r.Defines {
			definesAll[u] = true
		}
		for _, u := range r.AbsUsed {
			absAll[u] = true
		}
		for _, u := range r.Inlined {
			inlined[u] = true
		}
		for _, u := range r.Notes {
			notes[u] = true
		}
	}
	trusted := []string{
		"go/packages + go/types + go/ssa (x/tools v0.29.0) represent /repo's sources faithfully",
		"govc's SSA->SMT translation (tested by /verif/selftest must-fail corpus, not proved)",
		"SMT solvers z3 4.8.12, z3 5.1.0, cvc5 1.0.3",
		"slice lengths/capacities <= 2^48 and allocation counter < 2^62 (machine integers are otherwise exact 64/32/16/8-bit vectors)",
		"partial correctness: a callee under contract is assumed to return or panic; its panic-freedom is its own obligation set",
	}
	if ctx != nil {
		var ext []string
		for k := range usedExternals {
			ext = append(ext, k+": "+trustedList[k])
		}
		sort.Strings(ext)
		for _, x := range ext {
			trusted = append(trusted, "external model "+x)
		}
		for pp, axs := range ctx.cs.Axioms {
			for _, a := range axs {
				trusted = append(trusted, "axiom ("+shortKey(pp)+"): "+a.Text)
			}
		}
	}
	if samples == nil {
		samples = []interface{}{}
	}
	if fa, ok := extra["frame_analysis"].(map[string]interface{}); ok {
		for _, k := range []string{"F1_samples", "F2_samples"} {
			if xs, ok := fa[k].([]string); ok {
				for _, x := range xs {
					samples = append(samples, x)
				}
			}
		}
	}
	if rg, ok := extra["registry"].(map[string]interface{}); ok {
		if xs, ok := rg["samples"].([]string); ok {
			for _, x := range xs {
				samples = append(samples, x)
			}
		}
	}
	if undischarged == nil {
		undischarged = []interface{}{}
	}
	cov := map[string]interface{}{
		"obligations": nObl, "discharged": nDis, "known_findings": nKnown,
		"checker_cmd":  "/verif/bin/govc check " + id + " " + tier,
		"trusted_base": trusted,
		"samples":      samples,
		"functions_under_contract": funcs,
		"obligations_by_kind":      byKind,
		"discharged_by_backend":    bySolver,
		"solver_seconds":           round3(secs),
		"undischarged":             undischarged,
		"contracts_relied_on":      sortedKeys(usedContracts),
		"callees_without_contract_havocked_with_inferred_frame": sortedKeys(noContract),
		"callees_inlined":          sortedKeys(inlined),
		"definitional_clauses_assumed_at_call_sites": sortedKeys(definesAll),
		"abstract_methods_and_predicate_definitions_used": sortedKeys(absAll),
		"model_imprecisions":       sortedKeys(notes),
		"functions_outside_reach":  notReach,
		"not_decided":              pf.NotDecided,
		"bounded_stand_ins":        pf.Bounded,
		"explanation":              pf.Explain,
	}
	for k, v := range extra {
		cov[k] = v
	}
	if nObl == 0 {
		cov["obligations"] = 0
	}
	evd := map[string]interface{}{
		"property_id": id, "tier": tier, "seed": seed, "level": level, "coverage": cov,
		"assumptions": pf.Assume, "wall_s": round3(time.Since(t0).Seconds()), "violations": violations,
	}
	if level == "other" && pf.Explain != "" {
		cov["explanation"] = pf.Explain
	}
	jb, _ := json.MarshalIndent(evd, "", " ")
	os.MkdirAll("/verif/evidence", 0o755)
	os.WriteFile(filepath.Join("/verif/evidence", id+".json"), jb, 0o644)
}

func round3(x float64) float64 { return float64(int(x*1000+0.5)) / 1000 }

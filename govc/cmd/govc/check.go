package main

func cmdCheck(args []string) {}

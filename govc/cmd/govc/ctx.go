package main

// Program context: loading, naming, contracts lookup, inferred frames.

import (
	"fmt"
	"go/ast"
	"go/token"
	"go/types"
	"math/big"
	"os"
	"path/filepath"
	"sort"
	"strconv"
	"strings"
	"sync"

	"golang.org/x/tools/go/packages"
	"golang.org/x/tools/go/ssa"
	"golang.org/x/tools/go/ssa/ssautil"
)

type bigInt = big.Int

var bigOne = big.NewInt(1)

type EncOpts struct {
	AutoInv map[string][]*Clause // function key -> accepted auto invariants (with Loop set)
	Cand    map[string][]*Clause // candidates under test
	Alloc   bool
}

type Ctx struct {
	prog    *ssa.Program
	fset    *token.FileSet
	pkgs    map[string]*packages.Package
	spkgs   map[string]*ssa.Package
	cs      *ContractSet
	modPath string
	repo    string

	mu       sync.Mutex
	typeIDs  map[string]int
	typeList []types.Type
	typeByIDm map[int]types.Type
	funcIDtaken map[int]bool
	funcIDs  map[*ssa.Function]int
	funcs    map[string]*ssa.Function
	ws       map[*ssa.Function]map[string]bool
	wsDirect map[*ssa.Function]map[string]bool
	callees  map[*ssa.Function][]*ssa.Function
	tcache   map[string]types.Type
	files    map[*token.File]*ast.File
	devirts  map[string]string
	mapKeys  map[string][]string
	devirtT  map[string]types.Type
	typeInv  map[string][2]string
	synth    map[*ssa.Function]*Contract
	impls    map[string][]*ssa.Function
}

func loadProgram(repo string, patterns []string) (*Ctx, error) {
	cfg := &packages.Config{Mode: packages.LoadAllSyntax, Dir: repo, BuildFlags: []string{"-tags=verif"},
		Env: append(os.Environ(), "GOFLAGS=-mod=mod", "GOPROXY=off", "GOSUMDB=off", "GOTOOLCHAIN=local")}
	pkgs, err := packages.Load(cfg, patterns...)
	if err != nil {
		return nil, err
	}
	var errs []string
	packages.Visit(pkgs, nil, func(p *packages.Package) {
		for _, e := range p.Errors {
			errs = append(errs, e.Error())
		}
	})
	if len(errs) > 0 {
		return nil, fmt.Errorf("load errors: %s", strings.Join(errs, "; "))
	}
	prog, _ := ssautil.AllPackages(pkgs, ssa.GlobalDebug|ssa.BareInits)
	prog.Build()
	ctx := &Ctx{prog: prog, fset: prog.Fset, pkgs: map[string]*packages.Package{}, spkgs: map[string]*ssa.Package{}, repo: repo,
		typeIDs: map[string]int{}, funcIDs: map[*ssa.Function]int{}, funcs: map[string]*ssa.Function{}, ws: map[*ssa.Function]map[string]bool{},
		wsDirect: map[*ssa.Function]map[string]bool{}, callees: map[*ssa.Function][]*ssa.Function{}, tcache: map[string]types.Type{}, files: map[*token.File]*ast.File{},
		devirts: map[string]string{}, impls: map[string][]*ssa.Function{}}
	dirs := map[string]string{}
	packages.Visit(pkgs, nil, func(p *packages.Package) {
		ctx.pkgs[p.PkgPath] = p
		if sp := prog.Package(p.Types); sp != nil {
			ctx.spkgs[p.PkgPath] = sp
		}
		if len(p.GoFiles) > 0 && strings.HasPrefix(p.GoFiles[0], repo+"/") {
			dirs[p.PkgPath] = filepath.Dir(p.GoFiles[0])
			for _, f := range p.Syntax {
				ctx.files[ctx.fset.File(f.Pos())] = f
			}
		}
	})
	ctx.cs = loadContracts(dirs)
	ctx.resolveDirectives()
	// index functions of repo packages
	for path := range dirs {
		sp := ctx.spkgs[path]
		if sp == nil {
			continue
		}
		for _, m := range sp.Members {
			switch x := m.(type) {
			case *ssa.Function:
				ctx.funcs[ctx.funcKey(x)] = x
			case *ssa.Type:
				for _, t := range []types.Type{x.Type(), types.NewPointer(x.Type())} {
					ms := prog.MethodSets.MethodSet(t)
					for i := 0; i < ms.Len(); i++ {
						if f := prog.MethodValue(ms.At(i)); f != nil && f.Pkg == sp && f.Synthetic == "" {
							ctx.funcs[ctx.funcKey(f)] = f
						}
					}
				}
			}
		}
	}
	return ctx, nil
}

func (ctx *Ctx) isRepoFunc(fn *ssa.Function) bool {
	if fn.Pkg == nil {
		if fn.Parent() != nil {
			return ctx.isRepoFunc(fn.Parent())
		}
		return false
	}
	_, ok := ctx.pkgs[fn.Pkg.Pkg.Path()]
	if !ok {
		return false
	}
	p := ctx.pkgs[fn.Pkg.Pkg.Path()]
	return len(p.GoFiles) > 0 && strings.HasPrefix(p.GoFiles[0], ctx.repo+"/")
}

// funcKey: "<pkgpath>.Name" or "<pkgpath>.(*T).M" / "<pkgpath>.(T).M"
func (ctx *Ctx) funcKey(fn *ssa.Function) string {
	if fn == nil {
		return "?"
	}
	pkg := ""
	if fn.Pkg != nil {
		pkg = fn.Pkg.Pkg.Path()
	} else if fn.Parent() != nil {
		return ctx.funcKey(fn.Parent()) + "$" + fn.Name()
	} else if fn.Object() != nil && fn.Object().Pkg() != nil {
		pkg = fn.Object().Pkg().Path()
	}
	if fn.Parent() != nil {
		return ctx.funcKey(fn.Parent()) + "$" + fn.Name()
	}
	if recv := fn.Signature.Recv(); recv != nil {
		t := recv.Type()
		if p, ok := t.(*types.Pointer); ok {
			if n, ok := p.Elem().(*types.Named); ok {
				return pkg + ".(*" + n.Obj().Name() + ")." + fn.Name()
			}
		}
		if n, ok := t.(*types.Named); ok {
			return pkg + ".(" + n.Obj().Name() + ")." + fn.Name()
		}
	}
	return pkg + "." + fn.Name()
}

func (ctx *Ctx) contractOf(fn *ssa.Function) *Contract {
	if c, ok := ctx.cs.ByFunc[ctx.funcKey(fn)]; ok {
		// type invariants of the parameters and schema clauses are added to written contracts too, exactly once; concurrent
		// callers wait for the merge to be complete (a caller that saw a half-merged contract would prove or assume less)
		c.mergeOnce.Do(func() {
			sc := ctx.synthContract(fn)
			if sc == nil {
				return
			}
			if !c.NoTypeInv {
				c.Requires = append(append([]*Clause{}, sc.Requires...), c.Requires...)
				c.Ensures = append(c.Ensures, sc.Ensures...)
			} else {
				// explicit contracts of the bits package carry their own invariants: only schema clauses would apply (none there)
			}
			c.Assumes = append(c.Assumes, sc.Assumes...)
			c.Defines = append(c.Defines, sc.Defines...)
			for n, invs := range sc.Invs {
				c.Invs[n] = append(c.Invs[n], invs...)
			}
			if c.Assigns == nil && sc.Assigns != nil {
				c.Assigns = sc.Assigns
			}
		})
		return c
	}
	return ctx.synthContract(fn)
}

// schemasFor: schema templates applying to fn.
func (ctx *Ctx) schemasFor(fn *ssa.Function) []*Schema {
	if fn.Pkg == nil || fn.Parent() != nil {
		return nil
	}
	var out []*Schema
	if recv := fn.Signature.Recv(); recv != nil {
		tn := typeKey(derefOrSelf(recv.Type()))
		if i := strings.LastIndex(tn, "."); i >= 0 {
			tn = tn[i+1:]
		}
		full := tn + "." + fn.Name()
		for _, s := range ctx.cs.Schemas {
			if s.Method && s.Pkg == fn.Pkg.Pkg.Path() && s.Re.MatchString(fn.Name()) && (s.Except == nil || !s.Except.MatchString(full)) && (s.Only == nil || s.Only.MatchString(full)) {
				out = append(out, s)
			}
		}
		return out
	}
	for _, s := range ctx.cs.Schemas {
		if s.Method {
			continue
		}
		if s.Pkg == fn.Pkg.Pkg.Path() && s.Re.MatchString(fn.Name()) {
			if s.Except != nil && s.Except.MatchString(fn.Name()) {
				continue
			}
			if s.TypeName != "" {
				// only functions with exactly the signature of the named function type
				obj := fn.Pkg.Pkg.Scope().Lookup(s.TypeName)
				if obj == nil {
					continue
				}
				sig, ok := obj.Type().Underlying().(*types.Signature)
				if !ok || !types.Identical(sig, fn.Signature) {
					continue
				}
			}
			out = append(out, s)
		}
	}
	return out
}

// methodSchema: the method schema governing dynamic calls of method m through interface type it. Except/Only are matched
// against "<InterfaceName>.<Method>" (e.g. "Box.EncodeSW", "Descriptor.EncodeSW").
func (ctx *Ctx) methodSchema(m *types.Func, it types.Type) *Schema {
	if m == nil || m.Pkg() == nil {
		return nil
	}
	iname := ""
	if n, ok := it.(*types.Named); ok {
		iname = n.Obj().Name()
	}
	full := iname + "." + m.Name()
	for _, s := range ctx.cs.Schemas {
		if s.Method && s.Pkg == m.Pkg().Path() && s.Re.MatchString(m.Name()) && (s.Except == nil || !s.Except.MatchString(full)) && (s.Only == nil || s.Only.MatchString(full)) {
			return s
		}
	}
	return nil
}

func (ctx *Ctx) isAbsMethod(m *types.Func) bool {
	return m != nil && m.Pkg() != nil && ctx.cs.AbsMethods[m.Pkg().Path()+"."+m.Name()] && m.Type().(*types.Signature).Params().Len() == 0
}

func (ctx *Ctx) schemaForType(t types.Type) *Schema {
	n, ok := t.(*types.Named)
	if !ok || n.Obj().Pkg() == nil {
		return nil
	}
	for _, s := range ctx.cs.Schemas {
		if s.TypeName != "" && s.Pkg == n.Obj().Pkg().Path() && s.TypeName == n.Obj().Name() {
			return s
		}
	}
	return nil
}

// resolveDirectives turns devirt/typeinv directives into type-keyed tables.
func (ctx *Ctx) resolveDirectives() {
	ctx.devirtT = map[string]types.Type{}
	ctx.typeInv = map[string][2]string{}
	for k, v := range ctx.cs.Devirt {
		i := strings.Index(k, "|")
		pkg := ctx.typesPkg(k[:i])
		it, ct := ctx.parseType(pkg, k[i+1:]), ctx.parseType(pkg, v)
		if it == nil || ct == nil {
			ctx.cs.Errors = append(ctx.cs.Errors, "devirt: cannot resolve "+k+" = "+v)
			continue
		}
		ctx.devirtT[typeKeyFull(it)] = ct
	}
	for k, v := range ctx.cs.TypeInvs {
		i := strings.Index(k, "|")
		pkg := ctx.typesPkg(k[:i])
		t := ctx.parseType(pkg, k[i+1:])
		if t == nil {
			ctx.cs.Errors = append(ctx.cs.Errors, "typeinv: cannot resolve "+k)
			continue
		}
		ctx.typeInv[typeKeyFull(t)] = [2]string{k[:i], v}
	}
}

// synthContract: functions without a written contract get the type invariants of their parameters as requires/ensures
// (frame inferred). Returns nil when no parameter type has an invariant.
func (ctx *Ctx) synthContract(fn *ssa.Function) *Contract {
	if (len(ctx.typeInv) == 0 && len(ctx.cs.Schemas) == 0) || fn.Blocks == nil || !ctx.isRepoFunc(fn) || fn.Pkg == nil {
		return nil
	}
	ctx.mu.Lock()
	if c, ok := ctx.synth[fn]; ok {
		ctx.mu.Unlock()
		return c
	}
	ctx.mu.Unlock()
	var c *Contract
	for _, sch := range ctx.schemasFor(fn) {
		if c == nil {
			c = &Contract{Func: fn.Name(), Pkg: fn.Pkg.Pkg.Path(), Invs: map[int][]*Clause{}, Decr: map[int]*Clause{}, NoTerm: map[int]bool{}, Unroll: map[int]int{}, File: "(schema " + sch.Name + ")", Synth: true}
		}
		c.Requires = append(c.Requires, sch.C.Requires...)
		c.Ensures = append(c.Ensures, sch.C.Ensures...)
		c.Assumes = append(c.Assumes, sch.C.Assumes...)
		c.Defines = append(c.Defines, sch.C.Defines...)
		for n, invs := range sch.C.Invs {
			c.Invs[n] = append(c.Invs[n], invs...)
		}
		if sch.C.Assigns != nil && c.Assigns == nil {
			c.Assigns = sch.C.Assigns
		}
	}
	for _, p := range fn.Params {
		ti, ok := ctx.typeInv[typeKeyFull(p.Type())]
		if !ok || p.Name() == "_" || p.Name() == "" {
			continue
		}
		if c == nil {
			c = &Contract{Func: fn.Name(), Pkg: fn.Pkg.Pkg.Path(), Invs: map[int][]*Clause{}, Decr: map[int]*Clause{}, NoTerm: map[int]bool{}, Unroll: map[int]int{}, File: "(type invariant)", Synth: true}
		}
		reqOnly := strings.HasPrefix(ti[1], "?")
		text := strings.TrimPrefix(ti[1], "?") + "(" + p.Name() + ")"
		f, err := parseFormula(text)
		if err != nil {
			continue
		}
		c.Requires = append(c.Requires, &Clause{Kind: "requires", F: f, Text: text, File: "(typeinv " + typeKey(p.Type()) + ")"})
		if !reqOnly {
			c.Ensures = append(c.Ensures, &Clause{Kind: "ensures", F: f, Text: text, File: "(typeinv " + typeKey(p.Type()) + ")"})
		}
	}
	ctx.mu.Lock()
	if ctx.synth == nil {
		ctx.synth = map[*ssa.Function]*Contract{}
	}
	ctx.synth[fn] = c
	ctx.mu.Unlock()
	return c
}

// Type and function identifiers are derived from the names (FNV hash, linear probing on the rare collision), not from the
// order of first use: the generated queries are then textually identical from run to run, which the content-addressed
// cache of discharged queries relies on.
func stableHash(s string) int {
	h := uint32(2166136261)
	for i := 0; i < len(s); i++ {
		h ^= uint32(s[i])
		h *= 16777619
	}
	return int(h & 0x3fffffff)
}

func (ctx *Ctx) typeIDOf(t types.Type) int {
	k := typeKeyFull(t)
	ctx.mu.Lock()
	defer ctx.mu.Unlock()
	if id, ok := ctx.typeIDs[k]; ok {
		return id
	}
	if ctx.typeByIDm == nil {
		ctx.typeByIDm = map[int]types.Type{}
	}
	id := 1 + stableHash(k)
	for {
		if _, taken := ctx.typeByIDm[id]; !taken {
			break
		}
		id++
	}
	ctx.typeIDs[k] = id
	ctx.typeByIDm[id] = t
	return id
}

func (ctx *Ctx) typeByID(id int) types.Type {
	ctx.mu.Lock()
	defer ctx.mu.Unlock()
	return ctx.typeByIDm[id]
}

func (ctx *Ctx) funcID(fn *ssa.Function) int {
	ctx.mu.Lock()
	defer ctx.mu.Unlock()
	if id, ok := ctx.funcIDs[fn]; ok {
		return id
	}
	if ctx.funcIDtaken == nil {
		ctx.funcIDtaken = map[int]bool{}
	}
	id := 1<<40 + stableHash(fn.String()+"@"+ctx.fset.Position(fn.Pos()).String())
	for ctx.funcIDtaken[id] {
		id++
	}
	ctx.funcIDtaken[id] = true
	ctx.funcIDs[fn] = id
	return id
}

func (ctx *Ctx) fileOf(pos token.Pos) *ast.File {
	tf := ctx.fset.File(pos)
	if tf == nil {
		return nil
	}
	return ctx.files[tf]
}

func (ctx *Ctx) typesPkg(path string) *types.Package {
	if p, ok := ctx.pkgs[path]; ok {
		return p.Types
	}
	return nil
}

func (ctx *Ctx) parseType(pkg *types.Package, s string) types.Type {
	if pkg == nil {
		return nil
	}
	k := pkg.Path() + "|" + s
	ctx.mu.Lock()
	t, ok := ctx.tcache[k]
	ctx.mu.Unlock()
	if ok {
		return t
	}
	tv, err := types.Eval(ctx.fset, pkg, token.NoPos, s)
	if err == nil && tv.IsType() {
		t = tv.Type
	} else if strings.HasPrefix(s, "*") {
		if inner := ctx.parseType(pkg, s[1:]); inner != nil {
			t = types.NewPointer(inner)
		}
	} else if strings.HasPrefix(s, "[]") {
		if inner := ctx.parseType(pkg, s[2:]); inner != nil {
			t = types.NewSlice(inner)
		}
	} else if i := strings.Index(s, "."); i > 0 && !strings.ContainsAny(s, "[]* ") {
		// qualified name: imports are file-scoped, so resolve through the package's import list (or any loaded package)
		pn, tn := s[:i], s[i+1:]
		var cands []*types.Package
		cands = append(cands, pkg.Imports()...)
		for _, p := range ctx.pkgs {
			cands = append(cands, p.Types)
		}
		for _, ip := range cands {
			if ip.Name() == pn {
				if obj, ok := ip.Scope().Lookup(tn).(*types.TypeName); ok {
					t = obj.Type()
					break
				}
			}
		}
	}
	ctx.mu.Lock()
	ctx.tcache[k] = t
	ctx.mu.Unlock()
	return t
}

func (ctx *Ctx) specFn(pkg *types.Package, name string) (*SpecFn, bool) {
	if pkg != nil {
		if sf, ok := ctx.cs.Specs[pkg.Path()+"."+name]; ok {
			return sf, true
		}
	}
	// specs exported from other packages (e.g. bits) are visible by bare name if unique
	var found *SpecFn
	for k, sf := range ctx.cs.Specs {
		if strings.HasSuffix(k, "."+name) && sf.Name == name {
			if found != nil && found != sf {
				return nil, false
			}
			found = sf
		}
	}
	return found, found != nil
}

func (ctx *Ctx) autoInline(fn *ssa.Function) bool {
	if fn.Blocks == nil || !ctx.isRepoFunc(fn) {
		return false
	}
	// implementations of abstract pure methods (Size, Type, ...) are inlined when loop-free, calls and all: what they call is
	// inlined or used by contract in turn
	absImpl := fn.Signature.Recv() != nil && fn.Pkg != nil && ctx.cs.AbsMethods[fn.Pkg.Pkg.Path()+"."+fn.Name()] && fn.Signature.Params().Len() == 0
	n := 0
	for _, b := range fn.Blocks {
		for _, in := range b.Instrs {
			switch in.(type) {
			case *ssa.DebugRef:
				continue
			case *ssa.Call:
				if !absImpl {
					return false
				}
			case *ssa.Defer, *ssa.Go, *ssa.MakeClosure:
				return false
			}
			n++
		}
		for _, s := range b.Succs {
			if isBackEdge(b, s) {
				return false
			}
		}
	}
	return n <= 24 || (absImpl && n <= 200)
}

func (ctx *Ctx) devirt(name string) *ssa.Function {
	if k, ok := ctx.devirts[name]; ok {
		return ctx.funcs[k]
	}
	return nil
}

// ---------- inferred write sets ----------

func (ctx *Ctx) directWrites(fn *ssa.Function) (map[string]bool, []*ssa.Function) {
	ws := map[string]bool{}
	var callees []*ssa.Function
	addCallee := func(f *ssa.Function) {
		if f != nil {
			callees = append(callees, f)
		}
	}
	var addrPat func(v ssa.Value, depth int) []string
	addrPat = func(v ssa.Value, depth int) []string {
		if depth > 6 {
			return []string{"*"}
		}
		switch a := v.(type) {
		case *ssa.FieldAddr:
			stt := derefT(a.X.Type()).Underlying().(*types.Struct)
			fname := stt.Field(a.Field).Name()
			// nested: base is itself a field address or element address of struct type
			switch b := a.X.(type) {
			case *ssa.FieldAddr:
				var out []string
				for _, p := range addrPat(b, depth+1) {
					out = append(out, p+"."+fname)
				}
				// also reachable as field of the inner struct type through a plain pointer
				out = append(out, typeKey(derefT(a.X.Type()))+"."+fname)
				return out
			}
			return []string{typeKey(derefT(a.X.Type())) + "." + fname}
		case *ssa.IndexAddr:
			et := elemT(a.X.Type())
			if et == nil {
				return []string{"*"}
			}
			if _, ok := et.Underlying().(*types.Struct); ok {
				return []string{typeKey(et)}
			}
			return []string{"elem:" + typeKey(et)}
		case *ssa.Global:
			return []string{"G|" + a.Pkg.Pkg.Name() + "." + a.Name()}
		case *ssa.Alloc:
			t := derefT(a.Type())
			if _, ok := t.Underlying().(*types.Struct); ok {
				return nil // local object: not visible to callers unless it escapes (then fresh)
			}
			return nil
		case *ssa.Phi:
			var out []string
			for _, ed := range a.Edges {
				if ed == v {
					continue
				}
				out = append(out, addrPat(ed, depth+1)...)
			}
			return out
		}
		t := derefT(v.Type())
		if t == nil {
			return []string{"*"}
		}
		if _, ok := t.Underlying().(*types.Struct); ok {
			return []string{typeKey(t)}
		}
		if arr, ok := t.Underlying().(*types.Array); ok {
			return []string{"elem:" + typeKey(arr.Elem())}
		}
		return []string{"cell:" + typeKey(t)}
	}
	for _, b := range fn.Blocks {
		for _, in := range b.Instrs {
			switch x := in.(type) {
			case *ssa.Store:
				for _, p := range addrPat(x.Addr, 0) {
					ws[p] = true
				}
			case *ssa.Alloc:
				if x.Heap {
					ws["$alloc"] = true
				}
			case *ssa.MakeSlice, *ssa.MakeMap, *ssa.MakeClosure, *ssa.MakeChan:
				ws["$alloc"] = true
			case *ssa.Convert:
				if isSliceLike(x.Type()) && isSliceLike(x.X.Type()) {
					ws["$alloc"] = true
					ws["elem:uint8"] = true
				}
			case ssa.CallInstruction:
				cc := x.Common()
				if cc.IsInvoke() {
					name := typeKeyFull(cc.Value.Type()) + "." + cc.Method.Name()
					if pats, ok := externalWrites[name]; ok {
						for _, p := range pats {
							ws[p] = true
						}
						continue
					}
					if ctx.isAbsMethod(cc.Method) {
						continue // abstract pure method: no effects (checked by checkAbsMethods)
					}
					if ct, ok := ctx.devirtT[typeKeyFull(cc.Value.Type())]; ok {
						if f := ctx.prog.LookupMethod(ct, cc.Method.Pkg(), cc.Method.Name()); f != nil {
							addCallee(f)
							continue
						}
					}
					for _, f := range ctx.implementations(cc.Value.Type(), cc.Method) {
						addCallee(f)
					}
					if !ctx.isRepoIface(cc.Value.Type()) {
						// foreign interface (io.Reader etc.) without a model: may write byte buffers passed in
						for _, a := range cc.Args {
							if isSliceLike(a.Type()) && !isString(a.Type()) {
								ws["elem:"+typeKey(elemT(a.Type()))] = true
							}
						}
						ws["$alloc"] = true
					}
					continue
				}
				switch f := cc.Value.(type) {
				case *ssa.Builtin:
					switch f.Name() {
					case "append":
						ws["$alloc"] = true
						if et := elemT(cc.Args[0].Type()); et != nil {
							ws[elemPat(et)] = true
						}
					case "copy":
						if et := elemT(cc.Args[0].Type()); et != nil {
							ws[elemPat(et)] = true
						}
					}
				case *ssa.Function:
					key := ctx.funcKey(f)
					if pats, ok := externalWrites[key]; ok {
						for _, p := range pats {
							ws[p] = true
						}
						continue
					}
					if f.Blocks == nil || !ctx.isRepoFunc(f) {
						// foreign function without model: may allocate and write byte buffers passed in
						ws["$alloc"] = true
						for _, a := range cc.Args {
							if _, ok := a.Type().Underlying().(*types.Slice); ok {
								ws[elemPat(elemT(a.Type()))] = true
							}
						}
						continue
					}
					addCallee(f)
				case *ssa.MakeClosure:
					if g, ok := f.Fn.(*ssa.Function); ok {
						addCallee(g)
					}
				default:
					ws["*"] = true
				}
			}
		}
	}
	for _, af := range fn.AnonFuncs {
		_ = af
	}
	return ws, callees
}

func elemPat(et types.Type) string {
	if _, ok := et.Underlying().(*types.Struct); ok {
		return typeKey(et)
	}
	return "elem:" + typeKey(et)
}

func (ctx *Ctx) isRepoIface(t types.Type) bool {
	if n, ok := t.(*types.Named); ok && n.Obj().Pkg() != nil {
		p, ok := ctx.pkgs[n.Obj().Pkg().Path()]
		return ok && len(p.GoFiles) > 0 && strings.HasPrefix(p.GoFiles[0], ctx.repo+"/")
	}
	return false
}

func (ctx *Ctx) implementations(it types.Type, m *types.Func) []*ssa.Function {
	key := typeKeyFull(it) + "." + m.Name()
	ctx.mu.Lock()
	if r, ok := ctx.impls[key]; ok {
		ctx.mu.Unlock()
		return r
	}
	ctx.mu.Unlock()
	iface, ok := it.Underlying().(*types.Interface)
	var out []*ssa.Function
	if ok {
		for path, p := range ctx.pkgs {
			if len(p.GoFiles) == 0 || !strings.HasPrefix(p.GoFiles[0], ctx.repo+"/") {
				continue
			}
			_ = path
			sc := p.Types.Scope()
			for _, name := range sc.Names() {
				tn, ok := sc.Lookup(name).(*types.TypeName)
				if !ok {
					continue
				}
				for _, t := range []types.Type{tn.Type(), types.NewPointer(tn.Type())} {
					if _, isI := t.Underlying().(*types.Interface); isI {
						continue
					}
					if types.Implements(t, iface) {
						if f := ctx.prog.LookupMethod(t, m.Pkg(), m.Name()); f != nil {
							out = append(out, f)
						}
						break
					}
				}
			}
		}
	}
	ctx.mu.Lock()
	ctx.impls[key] = out
	ctx.mu.Unlock()
	return out
}

// writeSet: transitive closure of direct writes over the call graph (CHA for interface calls).
func (ctx *Ctx) writeSet(fn *ssa.Function) map[string]bool {
	ctx.mu.Lock()
	if ws, ok := ctx.ws[fn]; ok {
		ctx.mu.Unlock()
		return ws
	}
	ctx.mu.Unlock()
	// declared assigns of a contract are not used here: inferred sets are always computed from code
	seen := map[*ssa.Function]bool{}
	out := map[string]bool{}
	stack := []*ssa.Function{fn}
	for len(stack) > 0 {
		f := stack[len(stack)-1]
		stack = stack[:len(stack)-1]
		if seen[f] {
			continue
		}
		seen[f] = true
		ctx.mu.Lock()
		d, ok := ctx.wsDirect[f]
		cs := ctx.callees[f]
		ctx.mu.Unlock()
		if !ok {
			d, cs = ctx.directWrites(f)
			ctx.mu.Lock()
			ctx.wsDirect[f] = d
			ctx.callees[f] = cs
			ctx.mu.Unlock()
		}
		for p := range d {
			out[p] = true
		}
		stack = append(stack, cs...)
	}
	ctx.mu.Lock()
	ctx.ws[fn] = out
	ctx.mu.Unlock()
	return out
}

func (ctx *Ctx) ifaceWriteSet(it types.Type, m *types.Func) map[string]bool {
	out := map[string]bool{}
	impls := ctx.implementations(it, m)
	for _, f := range impls {
		for p := range ctx.writeSet(f) {
			out[p] = true
		}
	}
	if !ctx.isRepoIface(it) {
		out["$alloc"] = true
	}
	return out
}

// constMapLookup: lookups in package-level map[string]T registries initialised by a composite literal: for every literal key k,
// key == k implies ok (the registry is assumed unmodified, as the properties state). Values stay uninterpreted.
func (ctx *Ctx) constMapLookup(e *Enc, fr *Frame, x *ssa.Lookup, mv, kv Val, mt *types.Map) (Val, bool) {
	if !x.CommaOk || !isString(mt.Key()) {
		return Val{}, false
	}
	ld, ok := x.X.(*ssa.UnOp)
	if !ok {
		return Val{}, false
	}
	g, ok := ld.X.(*ssa.Global)
	if !ok || g.Pkg == nil {
		return Val{}, false
	}
	keys := ctx.globalMapKeys(g)
	if len(keys) == 0 {
		return Val{}, false
	}
	r := e.havocVal(x.Type(), "maplk")
	okTerm := r.L[len(r.L)-1]
	st := State{cur: map[string]string{}}
	for k, v := range fr.out {
		_ = k
		_ = v
	}
	_ = st
	var hits []string
	cur := e.curState
	if cur == nil {
		return Val{}, false
	}
	for _, k := range keys {
		if len(k) > 8 {
			continue
		}
		hits = append(hits, e.strEqLit(cur, kv, k))
	}
	e.assume(imp(e.curReach, imp(or(hits...), okTerm)))
	e.note("assumed: registry map " + g.Name() + " holds its literal keys (not modified at run time)")
	return r, true
}

func (ctx *Ctx) globalMapKeys(g *ssa.Global) []string {
	key := g.Pkg.Pkg.Path() + "." + g.Name()
	ctx.mu.Lock()
	if ctx.mapKeys == nil {
		ctx.mapKeys = map[string][]string{}
	}
	if ks, ok := ctx.mapKeys[key]; ok {
		ctx.mu.Unlock()
		return ks
	}
	ctx.mu.Unlock()
	var ks []string
	if p := ctx.pkgs[g.Pkg.Pkg.Path()]; p != nil {
		for _, f := range p.Syntax {
			ast.Inspect(f, func(n ast.Node) bool {
				var lhs, rhs ast.Expr
				switch s := n.(type) {
				case *ast.AssignStmt:
					if len(s.Lhs) == 1 && len(s.Rhs) == 1 {
						lhs, rhs = s.Lhs[0], s.Rhs[0]
					}
				case *ast.ValueSpec:
					if len(s.Names) == 1 && len(s.Values) == 1 {
						lhs, rhs = s.Names[0], s.Values[0]
					}
				}
				id, ok := lhs.(*ast.Ident)
				if !ok || id.Name != g.Name() {
					return true
				}
				cl, ok := rhs.(*ast.CompositeLit)
				if !ok {
					return true
				}
				for _, el := range cl.Elts {
					if kv, ok := el.(*ast.KeyValueExpr); ok {
						if bl, ok := kv.Key.(*ast.BasicLit); ok && bl.Kind == token.STRING {
							if s, err := strconv.Unquote(bl.Value); err == nil {
								ks = append(ks, s)
							}
						}
					}
				}
				return true
			})
		}
	}
	sort.Strings(ks)
	ctx.mu.Lock()
	ctx.mapKeys[key] = ks
	ctx.mu.Unlock()
	return ks
}

func (ctx *Ctx) sortedFuncKeys() []string {
	var ks []string
	for k := range ctx.funcs {
		ks = append(ks, k)
	}
	sort.Strings(ks)
	return ks
}

package main

// Loop helpers: inferred variants, candidate invariants (Houdini).

import (
	"fmt"
	"go/ast"
	"go/token"
	"go/types"

	"golang.org/x/tools/go/ssa"
)

type variant struct {
	clause *Clause
	phi    *ssa.Phi
	bound  ssa.Value
	text   string
	signed bool
	width  int
}

func (e *Enc) autoInvs(fr *Frame, li *loopInfo) []*Clause {
	if e.opt == nil || fr.parent != nil {
		return nil
	}
	key := e.ctx.funcKey(fr.fn)
	var out []*Clause
	for _, c := range e.opt.AutoInv[key] {
		if c.Loop == li.ordinal {
			out = append(out, c)
		}
	}
	for _, c := range e.opt.Cand[key] {
		if c.Loop == li.ordinal {
			out = append(out, c)
		}
	}
	return out
}

// inferVariant derives a termination measure for counted loops.
func (e *Enc) inferVariant(fr *Frame, li *loopInfo) (variant, bool) {
	if fs, ok := li.stmt.(*ast.ForStmt); ok && fs.Cond != nil {
		cond := fs.Cond
		// "i < n && more": the counting conjunct alone bounds the loop
		for {
			if pe, ok := cond.(*ast.ParenExpr); ok {
				cond = pe.X
				continue
			}
			if be, ok := cond.(*ast.BinaryExpr); ok && be.Op == token.LAND {
				cond = be.X
				continue
			}
			break
		}
		if be, ok := cond.(*ast.BinaryExpr); ok {
			var txt string
			switch be.Op {
			// narrow operands are measured in int64 so that an unsigned difference cannot underflow when the cursor jumps
			// past the bound; 64-bit operands keep their own type (signed or unsigned comparison of the difference)
			case token.LSS:
				txt = fmt.Sprintf("vdiff(%s, %s)", types.ExprString(be.Y), types.ExprString(be.X))
			case token.LEQ:
				txt = fmt.Sprintf("vdiff(%s, %s) + 1", types.ExprString(be.Y), types.ExprString(be.X))
			case token.GTR:
				txt = fmt.Sprintf("vdiff(%s, %s)", types.ExprString(be.X), types.ExprString(be.Y))
			case token.GEQ:
				txt = fmt.Sprintf("vdiff(%s, %s) + 1", types.ExprString(be.X), types.ExprString(be.Y))
			}
			if txt != "" {
				if f, err := parseFormula(txt); err == nil {
					pos := e.ctx.fset.Position(fs.Pos())
					return variant{clause: &Clause{Kind: "decreases", F: f, Text: txt, Loop: li.ordinal, File: pos.Filename, Line: pos.Line}, text: txt}, true
				}
			}
		}
	}
	// range-style loops: header compares (phi + c) with a loop-invariant bound
	h := li.header
	if len(h.Instrs) == 0 {
		return variant{}, false
	}
	iff, ok := h.Instrs[len(h.Instrs)-1].(*ssa.If)
	if !ok {
		return variant{}, false
	}
	cmp, ok := iff.Cond.(*ssa.BinOp)
	if !ok || (cmp.Op != token.LSS && cmp.Op != token.LEQ) {
		return variant{}, false
	}
	var phi *ssa.Phi
	switch x := cmp.X.(type) {
	case *ssa.Phi:
		phi = x
	case *ssa.BinOp:
		if p, ok := x.X.(*ssa.Phi); ok && x.Op == token.ADD {
			if _, isC := x.Y.(*ssa.Const); isC {
				phi = p
			}
		}
	}
	if phi == nil || phi.Block() != h {
		return variant{}, false
	}
	// bound must be defined outside the loop
	if in, ok := cmp.Y.(ssa.Instruction); ok && li.body[in.Block()] {
		return variant{}, false
	}
	if !isInt(phi.Type()) {
		return variant{}, false
	}
	return variant{phi: phi, bound: cmp.Y, text: "bound - " + phi.Comment, signed: isSigned(phi.Type()), width: widthOf(phi.Type())}, true
}

func (e *Enc) evalVariantVal(fr *Frame, v variant, st State, at *ssa.BasicBlock) (string, bool, int, bool) {
	if v.clause != nil {
		errsBefore := len(e.fatal)
		val := e.evalClauseValAt(fr, v.clause, at, st)
		if len(e.fatal) > errsBefore {
			// an inferred clause that does not bind is not an error of the code: drop it
			e.fatal = e.fatal[:errsBefore]
			return "", false, 0, false
		}
		if len(val.L) != 1 || !isInt(val.T) {
			return "", false, 0, false
		}
		return val.L[0], isSigned(val.T), widthOf(val.T), true
	}
	p := e.val(fr, v.phi)
	b := e.val(fr, v.bound)
	return app("bvsub", b.L[0], p.L[0]), v.signed, v.width, true
}

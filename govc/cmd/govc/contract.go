package main

// Contract files: //@ lines in <pkg>/verif_contracts.go (build tag verif).

import (
	"sync"
	"sort"
	"fmt"
	"go/ast"
	"go/parser"
	"go/token"
	"os"
	"path/filepath"
	"regexp"
	"strconv"
	"strings"
)

// Formula: Go expression extended with ==>, forall, exists.
type Formula struct {
	Kind  byte // 'e' plain Go expr (may contain placeholders), 'i' implies, 'q' quantifier
	Expr  ast.Expr
	Subs  map[string]*Formula // placeholder ident -> sub-formula
	L, R  *Formula
	Q     string // forall / exists
	Vars  []QVar
	Body  *Formula
	Text  string
}

type QVar struct{ Name, Type string }

type Clause struct {
	Kind string // requires ensures invariant decreases assigns assert
	Tags []string
	Loop int
	F    *Formula
	Text string
	Line int
	File string
	// assigns targets
	Targets []*Formula
	Auto    bool // generated candidate (Houdini), not written by hand
}

type SpecFn struct {
	Name   string
	Params []QVar
	Ret    string
	Body   *Formula
	Pkg    string
	Rec    bool
}

type Contract struct {
	Func     string // e.g. "(*Writer).Write" or "Mask"
	Pkg      string // package path
	Requires []*Clause
	Ensures  []*Clause
	Assigns  *Clause // nil = inferred
	Invs     map[int][]*Clause
	Decr     map[int]*Clause
	Inline   bool
	Trusted  bool
	Pure     bool
	NoTerm   map[int]bool // loop n: termination explicitly not claimed
	Unroll   map[int]int
	Line     int
	File     string
	Lemmas   []*Clause
	Uses     []string // tags whose callee postconditions this function's proof relies on
	Synth    bool     // synthesised from type invariants
	NoTypeInv bool    // do not add the parameters' type invariants
	Defines  []*Clause // ghost-state definitions: assumed at call sites like ensures, never an obligation of the body (listed in the evidence)
	Assumes  []*Clause // assumed at entry, never checked at call sites (domain restrictions; listed in the evidence)
	TrustKinds []string // obligation kinds not generated for this function (assumed; listed in the evidence)
	tiMerged bool
	mergeOnce sync.Once
}

type ContractSet struct {
	ByFunc map[string]*Contract // key pkgpath + "." + Func
	Specs  map[string]*SpecFn   // key pkgpath + "." + name ; also bare name for prelude
	Files  []string
	Errors []string
	Axioms map[string][]*Clause // package path -> axioms over package-level state
	Devirt map[string]string   // interface type (full name) -> concrete type expression, with the declaring package path: "<pkgpath>|<type>"
	TypeInvs map[string]string // type (full name) -> "<pkgpath>|<pred name>"
	Schemas  []*Schema
	AbsPreds   map[string]bool // "<pkgpath>.<name>": abstract predicate family over interface values, defined per dynamic type by pred name@Type
	AbsMethods map[string]bool // "<pkgpath>.<Method>": zero-argument interface methods modelled as pure functions of (receiver, heap epoch)
}

// Schema: one contract template for every function whose name matches Re (and for calls through values of the named func type).
type Schema struct {
	Name     string
	Pkg      string
	Re       *regexp.Regexp
	Except   *regexp.Regexp // on the function name, or for method schemas on "Type.Method"
	Method   bool
	Only     *regexp.Regexp // method schemas: restrict to matching "Type.Method" (type-specific schemas are not used for dynamic calls)
	TypeName string
	C        *Contract
	CallReq  []*Clause // requires checked at calls through the function type (defaults to C.Requires)
}

var reKeyword = regexp.MustCompile(`^(func|schema|absmethod|abspred|assumes|trustkind|pred|spec|axiom|devirt|typeinv|typereq|callrequires|notypeinv|uses|requires|ensures(\[[^\]]*\])?|defines(\[[^\]]*\])?|assigns|loop|inline|trusted|pure|lemma)\b`)

func loadContracts(pkgDirs map[string]string) *ContractSet {
	cs := &ContractSet{ByFunc: map[string]*Contract{}, Specs: map[string]*SpecFn{}, Axioms: map[string][]*Clause{}, Devirt: map[string]string{}, TypeInvs: map[string]string{}, AbsMethods: map[string]bool{}, AbsPreds: map[string]bool{}}
	for pkgPath, dir := range pkgDirs {
		fns, _ := filepath.Glob(filepath.Join(dir, "verif_contracts*.go"))
		sort.Strings(fns)
		for _, fn := range fns {
			b, err := os.ReadFile(fn)
			if err != nil {
				continue
			}
			cs.Files = append(cs.Files, fn)
			cs.parseFile(pkgPath, fn, string(b))
		}
	}
	// a defines clause about a ghost field only makes sense when the call also havocs that field: without an explicit assigns
	// clause naming it the clause would equate the old and the new ghost value
	for k, c := range cs.ByFunc {
		for _, d := range c.Defines {
			if i := strings.Index(d.Text, "ghost("); i >= 0 && strings.Contains(d.Text, "old(ghost(") {
				if c.Assigns == nil || !strings.Contains(c.Assigns.Text, "ghost(") {
					cs.errf(d.File, d.Line, "defines clause of %s updates a ghost field but the contract has no assigns clause naming it", k)
				}
			}
		}
	}
	return cs
}

func (cs *ContractSet) errf(file string, line int, f string, a ...interface{}) {
	cs.Errors = append(cs.Errors, fmt.Sprintf("%s:%d: %s", file, line, fmt.Sprintf(f, a...)))
}

func (cs *ContractSet) parseFile(pkgPath, file, src string) {
	lines := strings.Split(src, "\n")
	// join continuation lines: a //@ line whose text does not start with a keyword continues the previous one
	type item struct {
		text string
		line int
	}
	var items []item
	for i, ln := range lines {
		t := strings.TrimSpace(ln)
		if !strings.HasPrefix(t, "//@") {
			continue
		}
		t = strings.TrimSpace(t[3:])
		if j := strings.Index(t, " //"); j >= 0 { // trailing comment
			t = strings.TrimSpace(t[:j])
		}
		if t == "" {
			continue
		}
		if reKeyword.MatchString(t) || len(items) == 0 {
			items = append(items, item{t, i + 1})
		} else {
			items[len(items)-1].text += " " + t
		}
	}
	var cur *Contract
	var curSchema *Schema
	for _, it := range items {
		t := it.text
		word := t
		rest := ""
		if j := strings.IndexAny(t, " \t"); j >= 0 {
			word, rest = t[:j], strings.TrimSpace(t[j+1:])
		}
		var tags []string
		if j := strings.Index(word, "["); j >= 0 {
			tg := strings.TrimSuffix(word[j+1:], "]")
			for _, x := range strings.Split(tg, ",") {
				tags = append(tags, strings.TrimSpace(x))
			}
			word = word[:j]
		}
		mk := func(kind string, text string) *Clause {
			f, err := parseFormula(text)
			if err != nil {
				cs.errf(file, it.line, "cannot parse %q: %v", text, err)
				return nil
			}
			return &Clause{Kind: kind, Tags: tags, F: f, Text: text, Line: it.line, File: file}
		}
		switch word {
		case "callrequires":
			if curSchema == nil || cur != curSchema.C {
				cs.errf(file, it.line, "callrequires outside schema")
				continue
			}
			if c := mk("requires", rest); c != nil {
				curSchema.CallReq = append(curSchema.CallReq, c)
			}
		case "func":
			curSchema = nil
			cur = &Contract{Func: rest, Pkg: pkgPath, Invs: map[int][]*Clause{}, Decr: map[int]*Clause{}, NoTerm: map[int]bool{}, Unroll: map[int]int{}, Line: it.line, File: file}
			key := pkgPath + "." + rest
			if prev, dup := cs.ByFunc[key]; dup {
				// a later block for the same function (possibly in another contract file) adds clauses to the first
				cur = prev
			} else {
				cs.ByFunc[key] = cur
			}
		case "schema":
			// schema <name> func <regexp> [type <FuncTypeName>]
			f := strings.Fields(rest)
			if len(f) < 3 || (f[1] != "func" && f[1] != "method") {
				cs.errf(file, it.line, "bad schema header")
				continue
			}
			re, err := regexp.Compile(f[2])
			if err != nil {
				cs.errf(file, it.line, "bad schema regexp: %v", err)
				continue
			}
			sch := &Schema{Name: f[0], Pkg: pkgPath, Re: re, Method: f[1] == "method"}
			for k := 3; k+1 < len(f); k += 2 {
				switch f[k] {
				case "type":
					sch.TypeName = f[k+1]
				case "only":
					on, err := regexp.Compile(f[k+1])
					if err != nil {
						cs.errf(file, it.line, "bad schema only regexp: %v", err)
					} else {
						sch.Only = on
					}
				case "except":
					ex, err := regexp.Compile(f[k+1])
					if err != nil {
						cs.errf(file, it.line, "bad schema except regexp: %v", err)
					} else {
						sch.Except = ex
					}
				}
			}
			curSchema = sch
			cur = &Contract{Func: "schema:" + f[0], Pkg: pkgPath, Invs: map[int][]*Clause{}, Decr: map[int]*Clause{}, NoTerm: map[int]bool{}, Unroll: map[int]int{}, Line: it.line, File: file}
			sch.C = cur
			cs.Schemas = append(cs.Schemas, sch)
		case "abspred":
			for _, m := range strings.Fields(rest) {
				cs.AbsPreds[pkgPath+"."+m] = true
			}
		case "absmethod":
			for _, m := range strings.Fields(rest) {
				cs.AbsMethods[pkgPath+"."+m] = true
			}
		case "pred", "spec":
			sf, err := parseSpecFn(rest, word == "pred")
			if err != nil {
				cs.errf(file, it.line, "bad %s: %v", word, err)
				continue
			}
			sf.Pkg = pkgPath
			cs.Specs[pkgPath+"."+sf.Name] = sf
		case "axiom":
			if c := mk("axiom", rest); c != nil {
				cs.Axioms[pkgPath] = append(cs.Axioms[pkgPath], c)
			}
		case "devirt":
			// devirt <interface type> = <concrete type>   (both resolved in this package's scope)
			parts := strings.SplitN(rest, "=", 2)
			if len(parts) != 2 {
				cs.errf(file, it.line, "bad devirt")
				continue
			}
			cs.Devirt[pkgPath+"|"+strings.TrimSpace(parts[0])] = strings.TrimSpace(parts[1])
		case "typeinv":
			// typeinv <type> <pred>  : pred(x) is required of and ensured for every parameter of that type in functions without an explicit contract
			f := strings.Fields(rest)
			if len(f) != 2 {
				cs.errf(file, it.line, "bad typeinv")
				continue
			}
			cs.TypeInvs[pkgPath+"|"+f[0]] = f[1]
		case "typereq":
			// like typeinv, but only required of parameters, not ensured afterwards (abstract streams whose ghost state callees may havoc)
			f := strings.Fields(rest)
			if len(f) != 2 {
				cs.errf(file, it.line, "bad typereq")
				continue
			}
			cs.TypeInvs[pkgPath+"|"+f[0]] = "?" + f[1]
		case "assumes":
			if cur == nil {
				cs.errf(file, it.line, "assumes outside func")
				continue
			}
			if c := mk("assumes", rest); c != nil {
				cur.Assumes = append(cur.Assumes, c)
			}
		case "trustkind":
			if cur != nil {
				cur.TrustKinds = append(cur.TrustKinds, strings.Fields(rest)...)
			}
		case "defines":
			if cur == nil {
				cs.errf(file, it.line, "defines outside func")
				continue
			}
			if c := mk("defines", rest); c != nil {
				cur.Defines = append(cur.Defines, c)
			}
		case "requires", "ensures":
			if cur == nil {
				cs.errf(file, it.line, "%s outside func", word)
				continue
			}
			if c := mk(word, rest); c != nil {
				if word == "requires" {
					cur.Requires = append(cur.Requires, c)
				} else {
					cur.Ensures = append(cur.Ensures, c)
				}
			}
		case "assigns":
			if cur == nil {
				cs.errf(file, it.line, "assigns outside func")
				continue
			}
			c := &Clause{Kind: "assigns", Text: rest, Line: it.line, File: file}
			if strings.TrimSpace(rest) != "nothing" {
				for _, part := range splitTop(rest, ',') {
					f, err := parseFormula(strings.TrimSpace(part))
					if err != nil {
						cs.errf(file, it.line, "bad assigns target %q: %v", part, err)
						continue
					}
					c.Targets = append(c.Targets, f)
				}
			}
			if cur.Assigns != nil {
				cur.Assigns.Targets = append(cur.Assigns.Targets, c.Targets...)
				cur.Assigns.Text += ", " + rest
			} else {
				cur.Assigns = c
			}
		case "loop":
			if cur == nil {
				cs.errf(file, it.line, "loop outside func")
				continue
			}
			f := strings.Fields(rest)
			if len(f) < 2 {
				cs.errf(file, it.line, "bad loop clause")
				continue
			}
			n, err := strconv.Atoi(f[0])
			if err != nil {
				cs.errf(file, it.line, "bad loop ordinal")
				continue
			}
			body := strings.TrimSpace(strings.TrimPrefix(strings.TrimSpace(strings.TrimPrefix(rest, f[0])), f[1]))
			kw := f[1]
			if j := strings.Index(kw, "["); j >= 0 {
				tg := strings.TrimSuffix(kw[j+1:], "]")
				for _, x := range strings.Split(tg, ",") {
					tags = append(tags, strings.TrimSpace(x))
				}
				kw = kw[:j]
			}
			switch kw {
			case "invariant":
				if c := mk("invariant", body); c != nil {
					c.Loop = n
					c.Tags = tags
					cur.Invs[n] = append(cur.Invs[n], c)
				}
			case "decreases":
				first := splitTop(body, ',')[0]
				if c := mk("decreases", first); c != nil {
					c.Loop = n
					c.Text = body
					cur.Decr[n] = c
				}
			case "noterm":
				cur.NoTerm[n] = true
			case "unroll":
				k, _ := strconv.Atoi(body)
				cur.Unroll[n] = k
			default:
				cs.errf(file, it.line, "unknown loop clause %q", f[1])
			}
		case "uses":
			if cur != nil {
				for _, x := range strings.Split(rest, ",") {
					cur.Uses = append(cur.Uses, strings.TrimSpace(x))
				}
			}
		case "notypeinv":
			if cur != nil {
				cur.NoTypeInv = true
			}
		case "inline":
			if cur != nil {
				cur.Inline = true
			}
		case "trusted":
			if cur != nil {
				cur.Trusted = true
			}
		case "pure":
			if cur != nil {
				cur.Pure = true
			}
		default:
			cs.errf(file, it.line, "unknown clause %q", word)
		}
	}
}

// parseSpecFn parses "name(a T, b U) R = body"
func parseSpecFn(s string, pred bool) (*SpecFn, error) {
	eq := strings.Index(s, " = ")
	if eq < 0 {
		return nil, fmt.Errorf("missing ' = '")
	}
	head, body := strings.TrimSpace(s[:eq]), strings.TrimSpace(s[eq+3:])
	lp := strings.Index(head, "(")
	rp := strings.LastIndex(head, ")")
	if lp < 0 || rp < lp {
		return nil, fmt.Errorf("bad signature")
	}
	sf := &SpecFn{Name: strings.TrimSpace(head[:lp])}
	if strings.HasPrefix(sf.Name, "rec ") {
		sf.Rec = true
		sf.Name = strings.TrimSpace(sf.Name[4:])
	}
	params := strings.TrimSpace(head[lp+1 : rp])
	if params != "" {
		for _, p := range splitTop(params, ',') {
			f := strings.Fields(strings.TrimSpace(p))
			if len(f) < 2 {
				return nil, fmt.Errorf("bad param %q", p)
			}
			sf.Params = append(sf.Params, QVar{f[0], strings.Join(f[1:], " ")})
		}
	}
	sf.Ret = strings.TrimSpace(head[rp+1:])
	if pred {
		sf.Ret = "bool"
	}
	f, err := parseFormula(body)
	if err != nil {
		return nil, err
	}
	sf.Body = f
	return sf, nil
}

// splitTop splits s at sep occurring outside parentheses/brackets.
func splitTop(s string, sep byte) []string {
	var out []string
	depth := 0
	last := 0
	for i := 0; i < len(s); i++ {
		switch s[i] {
		case '(', '[', '{':
			depth++
		case ')', ']', '}':
			depth--
		default:
			if s[i] == sep && depth == 0 {
				out = append(out, s[last:i])
				last = i + 1
			}
		}
	}
	out = append(out, s[last:])
	return out
}

var phCounter int

func parseFormula(s string) (*Formula, error) {
	s = strings.TrimSpace(s)
	if s == "" {
		return nil, fmt.Errorf("empty formula")
	}
	// quantifier at head
	for _, q := range []string{"forall", "exists"} {
		if strings.HasPrefix(s, q+" ") {
			idx := strings.Index(s, "::")
			if idx < 0 {
				return nil, fmt.Errorf("quantifier without ::")
			}
			binders := strings.TrimSpace(s[len(q):idx])
			var vars []QVar
			for _, b := range splitTop(binders, ',') {
				f := strings.Fields(strings.TrimSpace(b))
				if len(f) < 2 {
					return nil, fmt.Errorf("bad binder %q", b)
				}
				vars = append(vars, QVar{f[0], strings.Join(f[1:], " ")})
			}
			body, err := parseFormula(s[idx+2:])
			if err != nil {
				return nil, err
			}
			return &Formula{Kind: 'q', Q: q, Vars: vars, Body: body, Text: s}, nil
		}
	}
	// top-level ==> (right assoc, lowest precedence)
	depth := 0
	for i := 0; i+2 < len(s); i++ {
		switch s[i] {
		case '(', '[', '{':
			depth++
		case ')', ']', '}':
			depth--
		case '=':
			if depth == 0 && s[i:i+3] == "==>" {
				l, err := parseFormula(s[:i])
				if err != nil {
					return nil, err
				}
				r, err := parseFormula(s[i+3:])
				if err != nil {
					return nil, err
				}
				return &Formula{Kind: 'i', L: l, R: r, Text: s}, nil
			}
		}
	}
	// parenthesised groups that contain extended syntax become placeholders
	subs := map[string]*Formula{}
	var b strings.Builder
	i := 0
	for i < len(s) {
		if s[i] == '(' {
			// find matching paren
			d := 0
			j := i
			for ; j < len(s); j++ {
				if s[j] == '(' {
					d++
				} else if s[j] == ')' {
					d--
					if d == 0 {
						break
					}
				}
			}
			if j >= len(s) {
				return nil, fmt.Errorf("unbalanced parentheses in %q", s)
			}
			inner := s[i+1 : j]
			if strings.Contains(inner, "==>") || strings.Contains(inner, "forall ") || strings.Contains(inner, "exists ") {
				// is this paren a call argument list? (preceded by identifier char) then only direct-args handled recursively
				prevIdent := i > 0 && (isIdentChar(s[i-1]) || s[i-1] == ')' || s[i-1] == ']')
				if !prevIdent {
					sub, err := parseFormula(inner)
					if err != nil {
						return nil, err
					}
					phCounter++
					name := fmt.Sprintf("ph__%d", phCounter)
					subs[name] = sub
					b.WriteString(name)
					i = j + 1
					continue
				}
				// call: process each argument
				b.WriteByte('(')
				args := splitTop(inner, ',')
				for k, a := range args {
					if k > 0 {
						b.WriteByte(',')
					}
					if strings.Contains(a, "==>") || strings.Contains(a, "forall ") || strings.Contains(a, "exists ") {
						sub, err := parseFormula(a)
						if err != nil {
							return nil, err
						}
						phCounter++
						name := fmt.Sprintf("ph__%d", phCounter)
						subs[name] = sub
						b.WriteString(name)
					} else {
						b.WriteString(a)
					}
				}
				b.WriteByte(')')
				i = j + 1
				continue
			}
			b.WriteString(s[i : j+1])
			i = j + 1
			continue
		}
		b.WriteByte(s[i])
		i++
	}
	e, err := parser.ParseExpr(b.String())
	if err != nil {
		return nil, fmt.Errorf("%v in %q", err, s)
	}
	return &Formula{Kind: 'e', Expr: e, Subs: subs, Text: s}, nil
}

func isIdentChar(c byte) bool {
	return c == '_' || (c >= 'a' && c <= 'z') || (c >= 'A' && c <= 'Z') || (c >= '0' && c <= '9')
}

var _ = token.NoPos

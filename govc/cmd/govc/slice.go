package main

// Goal-directed slicing of a query: keep definitions reachable from the goal and the assertions within k "sharing" rounds.
// Dropping assertions only weakens the hypotheses, so an unsat answer on the slice is an unsat answer on the full query;
// any other answer on the slice is ignored.

import (
	"strings"
)

func lineSyms(l string) []string {
	var out []string
	i := 0
	for i < len(l) {
		c := l[i]
		if c == '(' || c == ')' || c == ' ' {
			i++
			continue
		}
		j := i
		for j < len(l) && l[j] != '(' && l[j] != ')' && l[j] != ' ' {
			j++
		}
		tok := l[i:j]
		i = j
		if tok == "" || (tok[0] >= '0' && tok[0] <= '9') || tok[0] == '#' || tok[0] == '_' || tok[0] == ':' {
			continue
		}
		out = append(out, tok)
	}
	return out
}

var smtKeywords = map[string]bool{"assert": true, "define-fun": true, "declare-fun": true, "and": true, "or": true, "not": true, "=>": true, "=": true, "ite": true,
	"select": true, "store": true, "forall": true, "exists": true, "true": true, "false": true, "Bool": true, "Array": true, "BitVec": true, "as": true, "const": true, "!": true, "let": true}

func slicedScript(res *FuncResult, i int, rounds int) string {
	o := res.Obls[i]
	type ln struct {
		text string
		kind byte // 'd' define, 'c' declare, 'a' assert
		name string
		syms []string
		keep bool
	}
	var lines []*ln
	add := func(t string) {
		if strings.HasPrefix(t, ";;OBL ") || t == "" {
			return
		}
		l := &ln{text: t}
		switch {
		case strings.HasPrefix(t, "(define-fun "):
			l.kind = 'd'
			rest := t[len("(define-fun "):]
			sp := strings.IndexByte(rest, ' ')
			l.name = rest[:sp]
			l.syms = lineSyms(rest[sp:])
		case strings.HasPrefix(t, "(declare-fun "):
			l.kind = 'c'
			rest := t[len("(declare-fun "):]
			sp := strings.IndexByte(rest, ' ')
			l.name = rest[:sp]
		case strings.HasPrefix(t, "(assert "):
			l.kind = 'a'
			l.syms = lineSyms(t[len("(assert "):])
		default:
			l.kind = 'a'
			l.syms = lineSyms(t)
		}
		lines = append(lines, l)
	}
	for _, d := range res.Decl {
		add(d)
	}
	for li, l := range res.Script {
		if li >= o.Line {
			break
		}
		add(l)
	}
	R := map[string]bool{}
	for _, s := range lineSyms(o.Goal) {
		R[s] = true
	}
	defs := map[string]*ln{}
	for _, l := range lines {
		if l.kind == 'd' {
			defs[l.name] = l
		}
	}
	closeDefs := func() {
		changed := true
		for changed {
			changed = false
			for _, l := range lines {
				if l.kind == 'd' && !l.keep && R[l.name] {
					l.keep = true
					changed = true
					for _, s := range l.syms {
						if !R[s] {
							R[s] = true
						}
					}
				}
			}
		}
	}
	closeDefs()
	for r := 0; r < rounds; r++ {
		var newSyms []string
		for _, l := range lines {
			if l.kind != 'a' || l.keep {
				continue
			}
			hit := false
			for _, s := range l.syms {
				if R[s] && !smtKeywords[s] && !strings.HasPrefix(s, "bv") {
					hit = true
					break
				}
			}
			if hit {
				l.keep = true
				newSyms = append(newSyms, l.syms...)
			}
		}
		if len(newSyms) == 0 {
			break
		}
		for _, s := range newSyms {
			R[s] = true
		}
		closeDefs()
	}
	var b strings.Builder
	b.WriteString(header())
	for _, l := range lines {
		switch l.kind {
		case 'c':
			if R[l.name] || !strings.HasSuffix(l.text, ")") {
				b.WriteString(l.text + "\n")
			} else if strings.Contains(l.text, "((") {
				b.WriteString(l.text + "\n") // uninterpreted functions with arguments: keep (cheap)
			}
		case 'd', 'a':
			if l.keep {
				b.WriteString(l.text + "\n")
			}
		}
	}
	b.WriteString("(assert (not " + o.Goal + "))\n(check-sat)\n")
	return b.String()
}

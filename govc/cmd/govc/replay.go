package main

import "context"

func contextBG() context.Context { return context.Background() }

// replayObligation turns a solver model into a concrete run of the real function (see replay_gen.go).
func replayObligation(ctx *Ctx, r *FuncResult, i int, o *Obl) map[string]interface{} {
	return map[string]interface{}{"confirmed": false, "note": "replay not available for this obligation kind"}
}

func runExtra(ctx *Ctx, what, id string, ev map[string]interface{}, report func(string, map[string]interface{}, bool), known map[string]knownFinding) {
}

package main

// Counterexample replay: solver model -> concrete inputs -> run of the real function (go test -overlay) -> observed behaviour.

import (
	"context"
	"encoding/json"
	"fmt"
	"go/types"
	"os"
	"os/exec"
	"path/filepath"
	"regexp"
	"strconv"
	"strings"
	"time"

	"golang.org/x/tools/go/ssa"
)

func contextBG() context.Context { return context.Background() }

const replayElems = 48

type rpQuery struct {
	terms []string
	idx   map[string]int
}

func (q *rpQuery) add(t string) {
	if _, ok := q.idx[t]; ok {
		return
	}
	q.idx[t] = len(q.terms)
	q.terms = append(q.terms, t)
}

type rpBuilder struct {
	ctx   *Ctx
	r     *FuncResult
	fn    *ssa.Function
	q     *rpQuery
	vals  map[string]string // term -> value literal (after solving)
	pkg   *types.Package
	notes []string
	decls []string // statements building values
	nvar  int
	skip  string
	curIdx string
}

func (b *rpBuilder) heapSym(key string) (string, bool) {
	if !b.r.Keys[key] {
		return "", false
	}
	return symSafe(key) + "@0", true
}

// collect: phase 1 registers the terms needed for a value of type t given its leaf terms.
func (b *rpBuilder) collect(t types.Type, L []string, depth int) {
	for _, l := range L {
		b.q.add(l)
	}
	if depth > 3 {
		return
	}
	switch u := t.Underlying().(type) {
	case *types.Pointer:
		if st, ok := u.Elem().Underlying().(*types.Struct); ok {
			base := "H|" + typeKey(u.Elem())
			b.collectStruct(st, base, "", L[0], depth, false)
		} else if len(layout(u.Elem())) == 1 {
			if s, ok := b.heapSym("C|" + typeKey(u.Elem())); ok {
				b.q.add(sel(s, L[0]))
			}
		}
	case *types.Slice:
		b.collectElems(u.Elem(), L[0], L[1], depth)
	case *types.Basic:
		if isString(t) {
			b.collectElems(types.Typ[types.Uint8], L[0], L[1], depth)
		}
	case *types.Interface:
		// abstract streams
		for _, g := range []string{"rlen", "rpos", "wlen"} {
			if s, ok := b.heapSym("H|ghost." + g); ok {
				b.q.add(sel(s, L[1]))
			}
		}
		if s, ok := b.heapSym("H|ghost.rdata"); ok {
			for i := 0; i < replayElems; i++ {
				b.q.add(sel(sel(s, L[1]), c64(int64(i))))
			}
		}
	}
}

func (b *rpBuilder) collectStruct(st *types.Struct, base, path, ref string, depth int, elem bool) {
	for i := 0; i < st.NumFields(); i++ {
		f := st.Field(i)
		ls := layout(f.Type())
		var L []string
		ok := true
		for _, l := range ls {
			s, have := b.heapSym(base + path + "." + f.Name() + l.Path)
			if !have {
				ok = false
				break
			}
			if elem {
				L = append(L, sel(sel(s, ref), b.curIdx))
			} else {
				L = append(L, sel(s, ref))
			}
		}
		if !ok {
			continue
		}
		if _, isStruct := f.Type().Underlying().(*types.Struct); isStruct {
			for _, l := range L {
				b.q.add(l)
			}
			continue
		}
		b.collect(f.Type(), L, depth+1)
	}
}

func (b *rpBuilder) collectElems(et types.Type, ref, off string, depth int) {
	ls := layout(et)
	n := replayElems
	if len(ls) > 1 {
		n = 6
	}
	for i := 0; i < n; i++ {
		idx := bvadd(off, c64(int64(i)))
		var L []string
		ok := true
		for _, l := range ls {
			s, have := b.heapSym("M|" + typeKey(et) + l.Path)
			if !have {
				ok = false
				break
			}
			L = append(L, sel(sel(s, ref), idx))
		}
		if !ok {
			return
		}
		if len(ls) == 1 && (isInt(et) || isBool(et)) {
			b.q.add(L[0])
			continue
		}
		if depth < 2 {
			b.collect(et, L, depth+2)
		} else {
			for _, l := range L {
				b.q.add(l)
			}
		}
	}
}

func (b *rpBuilder) v(term string) (uint64, bool) {
	s, ok := b.vals[term]
	if !ok {
		if n, isC := constInt(term); isC {
			return uint64(n), true
		}
		return 0, false
	}
	switch {
	case strings.HasPrefix(s, "#x"):
		x, err := strconv.ParseUint(s[2:], 16, 64)
		return x, err == nil
	case strings.HasPrefix(s, "#b"):
		x, err := strconv.ParseUint(s[2:], 2, 64)
		return x, err == nil
	case s == "true":
		return 1, true
	case s == "false":
		return 0, true
	}
	if strings.HasPrefix(s, "(_ bv") {
		var x uint64
		var w int
		if n, _ := fmt.Sscanf(s, "(_ bv%d %d)", &x, &w); n == 2 {
			return x, true
		}
	}
	return 0, false
}

func (b *rpBuilder) qual(t types.Type) string {
	return types.TypeString(t, func(p *types.Package) string {
		if p == b.pkg {
			return ""
		}
		return p.Name()
	})
}

// expr: phase 2 builds a Go expression for a value of type t from the model.
func (b *rpBuilder) expr(t types.Type, L []string, depth int) string {
	switch u := t.Underlying().(type) {
	case *types.Basic:
		switch {
		case isBool(t):
			x, _ := b.v(L[0])
			return fmt.Sprintf("%s(%v)", b.qual(t), x != 0)
		case isString(t):
			bs := b.bytesOf(L[0], L[1], L[2])
			if bs == nil {
				return `""`
			}
			return fmt.Sprintf("%s(%s)", b.qual(t), bytesLit(bs, true))
		case isInt(t):
			x, _ := b.v(L[0])
			w := widthOf(t)
			if isSigned(t) {
				var sx int64
				switch w {
				case 8:
					sx = int64(int8(x))
				case 16:
					sx = int64(int16(x))
				case 32:
					sx = int64(int32(x))
				default:
					sx = int64(x)
				}
				return fmt.Sprintf("%s(%d)", b.qual(t), sx)
			}
			return fmt.Sprintf("%s(%d)", b.qual(t), x)
		}
		return "0"
	case *types.Slice:
		ref, _ := b.v(L[0])
		if ref == 0 {
			return "nil"
		}
		ln, _ := b.v(L[2])
		if int64(ln) < 0 || ln > 1<<20 {
			b.skip = fmt.Sprintf("model needs a slice of length %d", int64(ln))
			return "nil"
		}
		if isInt(u.Elem()) && widthOf(u.Elem()) == 8 && !isSigned(u.Elem()) {
			bs := b.bytesOf(L[0], L[1], L[2])
			return fmt.Sprintf("%s(%s)", b.qual(t), bytesLit(bs, false))
		}
		n := int(ln)
		var elems []string
		ls := layout(u.Elem())
		maxE := replayElems
		if len(ls) > 1 {
			maxE = 6
		}
		for i := 0; i < n && i < maxE; i++ {
			idx := bvadd(L[1], c64(int64(i)))
			var EL []string
			ok := true
			for _, l := range ls {
				s, have := b.heapSym("M|" + typeKey(u.Elem()) + l.Path)
				if !have {
					ok = false
					break
				}
				EL = append(EL, sel(sel(s, L[0]), idx))
			}
			if !ok {
				break
			}
			elems = append(elems, b.expr(u.Elem(), EL, depth+2))
		}
		if n > len(elems) {
			b.notes = append(b.notes, fmt.Sprintf("slice of %d elements: only first %d taken from the model, rest zero", n, len(elems)))
			return fmt.Sprintf("append(%s{%s}, make(%s, %d)...)", b.qual(t), strings.Join(elems, ", "), b.qual(t), n-len(elems))
		}
		return fmt.Sprintf("%s{%s}", b.qual(t), strings.Join(elems, ", "))
	case *types.Pointer:
		ref, _ := b.v(L[0])
		if ref == 0 {
			return "nil"
		}
		if depth > 3 {
			return "nil"
		}
		if st, ok := u.Elem().Underlying().(*types.Struct); ok {
			return "&" + b.structLit(u.Elem(), st, "H|"+typeKey(u.Elem()), "", L[0], "", depth)
		}
		if len(layout(u.Elem())) == 1 {
			if s, ok := b.heapSym("C|" + typeKey(u.Elem())); ok {
				b.nvar++
				name := fmt.Sprintf("cell%d", b.nvar)
				b.decls = append(b.decls, fmt.Sprintf("%s := %s", name, b.expr(u.Elem(), []string{sel(s, L[0])}, depth+1)))
				return "&" + name
			}
		}
		return fmt.Sprintf("new(%s)", b.qual(u.Elem()))
	case *types.Struct:
		// struct value with leaves L
		return b.structFromLeaves(t, u, L, depth)
	case *types.Interface:
		tag, _ := b.v(L[0])
		if tag == 0 {
			return "nil"
		}
		ts := typeKeyFull(t)
		switch {
		case ts == "error":
			return `errors.New("replay")`
		case ts == "io.Writer":
			return "&bytes.Buffer{}"
		case ts == "io.Reader" || ts == "io.ReadSeeker":
			var bs []byte
			rlen := uint64(0)
			if s, ok := b.heapSym("H|ghost.rlen"); ok {
				rlen, _ = b.v(sel(s, L[1]))
			}
			if rlen > 1<<20 {
				b.skip = fmt.Sprintf("model needs a reader of %d bytes", rlen)
				return "nil"
			}
			if s, ok := b.heapSym("H|ghost.rdata"); ok {
				for i := 0; i < int(rlen) && i < replayElems; i++ {
					x, _ := b.v(sel(sel(s, L[1]), c64(int64(i))))
					bs = append(bs, byte(x))
				}
			}
			for len(bs) < int(rlen) {
				bs = append(bs, 0)
			}
			rpos := uint64(0)
			if s, ok := b.heapSym("H|ghost.rpos"); ok {
				rpos, _ = b.v(sel(s, L[1]))
			}
			b.nvar++
			name := fmt.Sprintf("rd%d", b.nvar)
			b.decls = append(b.decls, fmt.Sprintf("%s := bytes.NewReader(%s)", name, bytesLit(bs, false)), fmt.Sprintf("%s.Seek(%d, 0)", name, int64(rpos)))
			return name
		}
		b.notes = append(b.notes, "interface value of type "+ts+" left nil")
		return "nil"
	case *types.Map:
		return "nil"
	case *types.Array:
		return b.qual(t) + "{}"
	}
	return "nil"
}

func (b *rpBuilder) structFromLeaves(t types.Type, st *types.Struct, L []string, depth int) string {
	var fs []string
	off := 0
	for i := 0; i < st.NumFields(); i++ {
		f := st.Field(i)
		n := len(layout(f.Type()))
		if off+n > len(L) {
			break
		}
		fs = append(fs, fmt.Sprintf("%s: %s", f.Name(), b.expr(f.Type(), L[off:off+n], depth+1)))
		off += n
	}
	return fmt.Sprintf("%s{%s}", b.qual(t), strings.Join(fs, ", "))
}

func (b *rpBuilder) structLit(t types.Type, st *types.Struct, base, path, ref, idx string, depth int) string {
	var fs []string
	for i := 0; i < st.NumFields(); i++ {
		f := st.Field(i)
		if f.Pkg() != nil && f.Pkg() != b.pkg && !f.Exported() {
			continue
		}
		ls := layout(f.Type())
		var L []string
		ok := true
		for _, l := range ls {
			s, have := b.heapSym(base + path + "." + f.Name() + l.Path)
			if !have {
				ok = false
				break
			}
			if idx != "" {
				L = append(L, sel(sel(s, ref), idx))
			} else {
				L = append(L, sel(s, ref))
			}
		}
		if !ok || len(ls) == 0 {
			continue
		}
		fs = append(fs, fmt.Sprintf("%s: %s", f.Name(), b.expr(f.Type(), L, depth+1)))
	}
	return fmt.Sprintf("%s{%s}", b.qual(t), strings.Join(fs, ", "))
}

func (b *rpBuilder) bytesOf(ref, off, ln string) []byte {
	n, _ := b.v(ln)
	if int64(n) < 0 || n > 1<<20 {
		b.skip = fmt.Sprintf("model needs %d bytes", int64(n))
		return nil
	}
	s, ok := b.heapSym("M|uint8")
	out := make([]byte, 0, n)
	for i := 0; i < int(n); i++ {
		if ok && i < replayElems {
			x, _ := b.v(sel(sel(s, ref), bvadd(off, c64(int64(i)))))
			out = append(out, byte(x))
		} else {
			out = append(out, 0)
		}
	}
	if int(n) > replayElems {
		b.notes = append(b.notes, fmt.Sprintf("%d bytes: only first %d from the model", n, replayElems))
	}
	return out
}

func bytesLit(bs []byte, str bool) string {
	if len(bs) > 4096 {
		// long runs: make + prefix
		var parts []string
		for _, x := range bs[:replayElems] {
			parts = append(parts, fmt.Sprintf("0x%02x", x))
		}
		return fmt.Sprintf("append([]byte{%s}, make([]byte, %d)...)", strings.Join(parts, ","), len(bs)-replayElems)
	}
	var parts []string
	for _, x := range bs {
		parts = append(parts, fmt.Sprintf("0x%02x", x))
	}
	return "[]byte{" + strings.Join(parts, ",") + "}"
}

var reGetValue = regexp.MustCompile(`(?s)\(\((.*)\)\)`)

// parseGetValue parses z3's "((term value) (term value) ...)" output, aligned with the query order.
func parseGetValue(out string, terms []string) map[string]string {
	res := map[string]string{}
	i := strings.Index(out, "((")
	if i < 0 {
		return res
	}
	root := parseSx(out[i:])
	for k, pair := range root.kids {
		if k < len(terms) && len(pair.kids) == 2 {
			res[terms[k]] = pair.kids[1].String()
		}
	}
	return res
}

func replayObligation(ctx *Ctx, r *FuncResult, i int, o *Obl) map[string]interface{} {
	out := map[string]interface{}{"confirmed": false}
	fn := ctx.funcs[r.Key]
	if fn == nil || fn.Pkg == nil {
		out["note"] = "function not addressable for replay"
		return out
	}
	b := &rpBuilder{ctx: ctx, r: r, fn: fn, q: &rpQuery{idx: map[string]int{}}, pkg: fn.Pkg.Pkg}
	for pi, p := range fn.Params {
		if pi < len(r.ParamVals) {
			b.collect(p.Type(), r.ParamVals[pi].L, 0)
		}
	}
	// solve again asking for the values; prefer small inputs (lengths <= 40), fall back to any model
	script := singleScript(r, i, false)
	var small []string
	for pi, p := range fn.Params {
		if pi >= len(r.ParamVals) {
			continue
		}
		ls := layout(p.Type())
		for li, l := range ls {
			if l.Kind == 'L' && strings.HasSuffix(l.Path, ".len") && li < len(r.ParamVals[pi].L) {
				small = append(small, app("bvsle", r.ParamVals[pi].L[li], c64(40)))
			}
		}
	}
	for _, t := range b.q.terms {
		if strings.Contains(t, "H!ghost.rlen@0") || strings.HasSuffix(strings.Fields(t)[0], ".len@0") {
			small = append(small, app("bvsle", t, c64(40)))
		}
	}
	sout := ""
	for attempt := 0; attempt < 2; attempt++ {
		var sb strings.Builder
		body := script
		if attempt == 0 && len(small) > 0 {
			body = strings.Replace(script, "(check-sat)\n", "(assert "+and(small...)+")\n(check-sat)\n", 1)
		} else if attempt == 0 {
			continue
		}
		sb.WriteString(body)
		if len(b.q.terms) > 0 {
			sb.WriteString("(get-value (" + strings.Join(b.q.terms, " ") + "))\n")
		}
		f := tmpFile("replay", sb.String())
		c2, cancel := context.WithTimeout(context.Background(), 40*time.Second)
		sout, _ = runSolver(c2, solvers[0], f, 30000, false)
		cancel()
		os.Remove(f)
		if strings.HasPrefix(strings.TrimSpace(sout), "sat") {
			break
		}
	}
	if !strings.HasPrefix(strings.TrimSpace(sout), "sat") {
		out["note"] = "model extraction failed: " + truncate(sout, 300)
		return out
	}
	b.vals = parseGetValue(sout, b.q.terms)
	var args []string
	for pi, p := range fn.Params {
		if pi < len(r.ParamVals) {
			args = append(args, b.expr(p.Type(), r.ParamVals[pi].L, 0))
		}
	}
	if b.skip != "" {
		out["note"] = "replay skipped: " + b.skip
		return out
	}
	call := ""
	if recv := fn.Signature.Recv(); recv != nil {
		call = fmt.Sprintf("(%s).%s(%s)", args[0], fn.Name(), strings.Join(args[1:], ", "))
	} else {
		call = fmt.Sprintf("%s(%s)", fn.Name(), strings.Join(args, ", "))
	}
	nres := fn.Signature.Results().Len()
	lhs := ""
	if nres > 0 {
		var rs []string
		for k := 0; k < nres; k++ {
			rs = append(rs, fmt.Sprintf("r%d", k))
		}
		lhs = strings.Join(rs, ", ") + " := "
	}
	var prints []string
	for k := 0; k < nres; k++ {
		prints = append(prints, fmt.Sprintf("fmt.Sprintf(\"%%#v\", r%d)", k))
	}
	resExpr := "[]string{" + strings.Join(prints, ", ") + "}"
	src := fmt.Sprintf(`package %s

import (
	"bytes"
	"encoding/json"
	"errors"
	"fmt"
	"os"
	"testing"
	"time"
)

var _ = bytes.NewReader
var _ = errors.New

func TestGovcReplay(t *testing.T) {
	type outT struct {
		Panic   string   `+"`json:\"panic\"`"+`
		Timeout bool     `+"`json:\"timeout\"`"+`
		Results []string `+"`json:\"results\"`"+`
	}
	var o outT
	done := make(chan struct{})
	go func() {
		defer close(done)
		defer func() {
			if r := recover(); r != nil {
				o.Panic = fmt.Sprint(r)
			}
		}()
		%s
		%s%s
		o.Results = %s
	}()
	select {
	case <-done:
	case <-time.After(10 * time.Second):
		o.Timeout = true
	}
	b, _ := json.Marshal(o)
	os.WriteFile(os.Getenv("GOVC_REPLAY_OUT"), b, 0o644)
}
`, fn.Pkg.Pkg.Name(), strings.Join(b.decls, "\n\t\t"), lhs, call, resExpr)
	out["call"] = call
	out["notes"] = b.notes
	pkgDir := ""
	if p := ctx.pkgs[fn.Pkg.Pkg.Path()]; p != nil && len(p.GoFiles) > 0 {
		pkgDir = filepath.Dir(p.GoFiles[0])
	}
	if pkgDir == "" {
		out["note"] = "no package directory"
		return out
	}
	os.MkdirAll(scratchDir, 0o755)
	tf := filepath.Join(scratchDir, fmt.Sprintf("replay_%d_%d_test.go", os.Getpid(), time.Now().UnixNano()))
	os.WriteFile(tf, []byte(src), 0o644)
	defer os.Remove(tf)
	ov := map[string]interface{}{"Replace": map[string]string{filepath.Join(pkgDir, "zz_govc_replay_test.go"): tf}}
	ovb, _ := json.Marshal(ov)
	ovf := tf + ".overlay.json"
	os.WriteFile(ovf, ovb, 0o644)
	defer os.Remove(ovf)
	resf := tf + ".out.json"
	defer os.Remove(resf)
	c3, cancel3 := context.WithTimeout(context.Background(), 120*time.Second)
	defer cancel3()
	cmd := exec.CommandContext(c3, "go", "test", "-overlay", ovf, "-vet=off", "-count=1", "-timeout", "60s", "-run", "^TestGovcReplay$", ".")
	cmd.Dir = pkgDir
	cmd.Env = append(os.Environ(), "GOFLAGS=-mod=mod", "GOPROXY=off", "GOSUMDB=off", "GOTOOLCHAIN=local", "GOVC_REPLAY_OUT="+resf)
	cout, _ := cmd.CombinedOutput()
	rb, err := os.ReadFile(resf)
	if err != nil {
		out["note"] = "replay test did not produce a result: " + truncate(string(cout), 600)
		out["test_source"] = src
		return out
	}
	var obs struct {
		Panic   string   `json:"panic"`
		Timeout bool     `json:"timeout"`
		Results []string `json:"results"`
	}
	json.Unmarshal(rb, &obs)
	out["observed"] = obs
	out["test_source"] = src
	kind := o.Kind
	if j := strings.Index(kind, ":"); j >= 0 {
		kind = kind[:j]
	}
	switch {
	case contains(safetyKinds, kind) || kind == "pre":
		if obs.Panic != "" {
			out["confirmed"] = true
			out["what"] = "the real function panics on the model input: " + obs.Panic
		}
	case kind == "dec":
		if obs.Timeout {
			out["confirmed"] = true
			out["what"] = "the real function does not return within 10 s on the model input"
		}
	}
	return out
}

func runExtra(ctx *Ctx, what, id string, ev map[string]interface{}, report func(string, map[string]interface{}, bool), known map[string]knownFinding) {
	switch what {
	case "globals":
		extraGlobals(ctx, id, ev, report, known)
	case "registry":
		extraRegistry(ctx, id, ev, report, known)
	case "abspure":
		extraAbsPure(ctx, id, ev, report, known)
	case "pairs":
		extraPairs(ctx, id, ev, report, known)
	case "c01pairs":
		extraC01Pairs(ctx, id, ev, report, known)
	}
}

package main

// Function-level encoding: CFG walk, loops cut by invariants, returns.

import (
	"fmt"
	"go/ast"
	"go/token"
	"go/types"
	"sort"
	"strings"

	"golang.org/x/tools/go/ssa"
)

type retInfo struct {
	reach string
	vals  []Val
	st    State
	pos   token.Pos
}

type loopInfo struct {
	header  *ssa.BasicBlock
	ordinal int // 1-based source order
	body    map[*ssa.BasicBlock]bool
	backs   []*ssa.BasicBlock // sources of back edges
	stmt    ast.Node
}

type Frame struct {
	fn       *ssa.Function
	env      map[ssa.Value]Val
	contract *Contract
	emit     bool // obligations for this frame are recorded
	entrySt  State
	reach    map[*ssa.BasicBlock]string
	out      map[*ssa.BasicBlock]State
	loops    map[*ssa.BasicBlock]*loopInfo
	rets     []retInfo
	parent   *Frame
	// name resolution
	defs map[types.Object][]defSite
	// header state at loop heads (for invariants)
	headSt   map[*ssa.BasicBlock]State
	headPhi  map[*ssa.BasicBlock]map[*ssa.Phi]Val
	order    []*ssa.BasicBlock
	rpoIndex map[*ssa.BasicBlock]int
	entryReach string
	panics   []string
	scratchHead *ssa.BasicBlock
	scratchNoInv bool
	scratchBackStates []State
}

type defSite struct {
	blk *ssa.BasicBlock
	idx int
	val ssa.Value
	isAddr bool
}

func (e *Enc) newFrame(fn *ssa.Function, parent *Frame) *Frame {
	fr := &Frame{fn: fn, env: map[ssa.Value]Val{}, reach: map[*ssa.BasicBlock]string{}, out: map[*ssa.BasicBlock]State{},
		loops: map[*ssa.BasicBlock]*loopInfo{}, parent: parent, headSt: map[*ssa.BasicBlock]State{}, headPhi: map[*ssa.BasicBlock]map[*ssa.Phi]Val{}}
	fr.contract = e.ctx.contractOf(fn)
	return fr
}

// isBackEdge: u -> h where h dominates u
func isBackEdge(u, h *ssa.BasicBlock) bool { return h.Dominates(u) }

func (fr *Frame) analyse(e *Enc) bool {
	fn := fr.fn
	if len(fn.Blocks) == 0 {
		return false
	}
	// reverse post-order ignoring back edges
	seen := map[*ssa.BasicBlock]bool{}
	var post []*ssa.BasicBlock
	var dfs func(b *ssa.BasicBlock)
	dfs = func(b *ssa.BasicBlock) {
		seen[b] = true
		for _, s := range b.Succs {
			if isBackEdge(b, s) {
				continue
			}
			if !seen[s] {
				dfs(s)
			}
		}
		post = append(post, b)
	}
	dfs(fn.Blocks[0])
	for i := len(post) - 1; i >= 0; i-- {
		fr.order = append(fr.order, post[i])
	}
	fr.rpoIndex = map[*ssa.BasicBlock]int{}
	for i, b := range fr.order {
		fr.rpoIndex[b] = i
	}
	// loops
	for _, b := range fn.Blocks {
		if !seen[b] {
			continue
		}
		for _, s := range b.Succs {
			if isBackEdge(b, s) {
				li := fr.loops[s]
				if li == nil {
					li = &loopInfo{header: s, body: map[*ssa.BasicBlock]bool{s: true}}
					fr.loops[s] = li
				}
				li.backs = append(li.backs, b)
				// natural loop body
				stack := []*ssa.BasicBlock{b}
				for len(stack) > 0 {
					x := stack[len(stack)-1]
					stack = stack[:len(stack)-1]
					if li.body[x] {
						continue
					}
					li.body[x] = true
					for _, p := range x.Preds {
						stack = append(stack, p)
					}
				}
			}
		}
	}
	// reducibility: every retreating edge must be a back edge (target dominates source)
	for _, b := range fr.order {
		for _, s := range b.Succs {
			if !isBackEdge(b, s) && fr.rpoIndex[s] <= fr.rpoIndex[b] {
				e.fatalf("irreducible control flow in %s", fn.Name())
				return false
			}
		}
	}
	// ordinals: headers in block-index order == source pre-order of loop statements
	var hs []*ssa.BasicBlock
	for h := range fr.loops {
		hs = append(hs, h)
	}
	sort.Slice(hs, func(i, j int) bool { return hs[i].Index < hs[j].Index })
	for i, h := range hs {
		fr.loops[h].ordinal = i + 1
	}
	if fr.contract != nil && fr.parent == nil {
		for n := range fr.contract.Invs {
			if n < 1 || n > len(hs) {
				e.fatalf("%s: loop %d invariant, but the function has %d loops (ordinals start at 1)", fr.contract.File, n, len(hs))
			}
		}
		for n := range fr.contract.Decr {
			if n < 1 || n > len(hs) {
				e.fatalf("%s: loop %d decreases, but the function has %d loops (ordinals start at 1)", fr.contract.File, n, len(hs))
			}
		}
	}
	// cross-check with the syntax: number of loop statements
	if syn := fn.Syntax(); syn != nil {
		var stmts []ast.Node
		var body *ast.BlockStmt
		switch n := syn.(type) {
		case *ast.FuncDecl:
			body = n.Body
		case *ast.FuncLit:
			body = n.Body
		}
		if body != nil {
			ast.Inspect(body, func(n ast.Node) bool {
				switch n.(type) {
				case *ast.FuncLit:
					return false
				case *ast.ForStmt, *ast.RangeStmt:
					stmts = append(stmts, n)
				}
				return true
			})
			if len(stmts) == len(hs) {
				for i, h := range hs {
					fr.loops[h].stmt = stmts[i]
				}
			} else if fr.contract != nil && (len(fr.contract.Invs) > 0 || len(fr.contract.Decr) > 0) {
				// goto-loops or dead loops: cannot bind by ordinal
				e.fatalf("loop binding: %d loop headers vs %d loop statements in %s", len(hs), len(stmts), fn.Name())
			}
		}
	}
	// definition sites for name resolution
	fr.defs = map[types.Object][]defSite{}
	for _, b := range fn.Blocks {
		for i, in := range b.Instrs {
			if d, ok := in.(*ssa.DebugRef); ok {
				if id, ok := d.Expr.(*ast.Ident); ok {
					obj := d.Object()
					if obj == nil {
						continue
					}
					_ = id
					fr.defs[obj] = append(fr.defs[obj], defSite{b, i, d.X, d.IsAddr})
				}
			}
		}
	}
	return true
}

// encodeBody walks the CFG of fr.fn starting from entry state st with params already bound in env.
func (e *Enc) encodeBody(fr *Frame, st State, entryReach string) {
	fr.entrySt = st.clone()
	fr.entryReach = entryReach
	if !fr.analyse(e) {
		return
	}
	e.walk(fr, fr.order, nil, st, entryReach)
}

// walk encodes the given blocks in order. If only != nil, blocks outside the set are skipped (scratch loop passes).
func (e *Enc) walk(fr *Frame, order []*ssa.BasicBlock, only map[*ssa.BasicBlock]bool, entrySt State, entryReach string) {
	fn := fr.fn
	for _, b := range order {
		if only != nil && !only[b] {
			continue
		}
		var st State
		var reach string
		var ins []inEdge
		if b == fn.Blocks[0] {
			st = entrySt.clone()
			reach = entryReach
		} else if only != nil && fr.scratchHead == b {
			st = entrySt.clone()
			reach = entryReach
		} else {
			for _, p := range b.Preds {
				if isBackEdge(p, b) {
					continue
				}
				pr, ok := fr.reach[p]
				if !ok || (only != nil && !only[p]) {
					continue
				}
				c := and(pr, e.edgeCond(fr, p, b))
				if c == "false" {
					continue
				}
				c = e.define("edge", BoolS(), c)
				ins = append(ins, inEdge{p, c, fr.out[p]})
			}
			if len(ins) == 0 {
				// unreachable
				fr.reach[b] = "false"
				fr.out[b] = entrySt.clone()
				// still bind instruction values to havoc so later uses don't crash
				e.bindDead(fr, b)
				continue
			}
			var rs []string
			for _, in := range ins {
				rs = append(rs, in.cond)
			}
			reach = e.define("reach_"+fmt.Sprint(b.Index), BoolS(), or(rs...))
			// merge states
			st = ins[0].st.clone()
			if len(ins) > 1 {
				keys := map[string]bool{}
				for _, in := range ins {
					for k := range in.st.cur {
						keys[k] = true
					}
				}
				var ks []string
				for k := range keys {
					ks = append(ks, k)
				}
				sort.Strings(ks)
				for _, k := range ks {
					same := true
					first := ""
					for i, in := range ins {
						s := in.st.cur[k]
						if i == 0 {
							first = s
						} else if s != first {
							same = false
						}
					}
					if same && first != "" {
						st.cur[k] = first
						continue
					}
					srt := e.keySort[k]
					// missing in some predecessor: initial symbol
					term := ""
					for i := len(ins) - 1; i >= 0; i-- {
						in := ins[i]
						s, ok := in.st.cur[k]
						if !ok {
							tmp := in.st
							s = e.getRaw(&tmp, k)
						}
						if term == "" {
							term = s
						} else {
							term = ite(in.cond, s, term)
						}
					}
					st.cur[k] = e.define(k, srt, term)
				}
			}
		}
		fr.reach[b] = reach
		// phis
		li := fr.loops[b]
		if li != nil && !(only != nil && fr.scratchHead == b && fr.scratchNoInv) {
			e.loopHead(fr, li, &st, reach, ins)
		} else if li != nil {
			// scratch pass at the loop head itself: phis fresh
			for _, in := range b.Instrs {
				phi, ok := in.(*ssa.Phi)
				if !ok {
					break
				}
				fr.env[phi] = e.havocVal(phi.Type(), "phi_"+phi.Name())
			}
		} else {
			for _, in := range b.Instrs {
				phi, ok := in.(*ssa.Phi)
				if !ok {
					break
				}
				var v Val
				first := true
				for i := len(ins) - 1; i >= 0; i-- {
					ie := ins[i]
					// find operand index for pred
					for pi, p := range b.Preds {
						if p == ie.p {
							ov := e.val(fr, phi.Edges[pi])
							ov = e.coerce(ov, phi.Type())
							if first {
								v = ov
								first = false
							} else {
								v = e.iteVal(ie.cond, ov, v, phi.Type())
							}
							break
						}
					}
				}
				if first {
					v = e.havocVal(phi.Type(), "phi")
				}
				fr.env[phi] = e.nameVal(v, "phi_"+phi.Name())
			}
		}
		// instructions
		for idx, in := range b.Instrs {
			if _, ok := in.(*ssa.Phi); ok {
				continue
			}
			e.curReach = reach
			e.curState = &st
			e.instr(fr, b, idx, in, &st, reach)
		}
		fr.out[b] = st
		// back edges out of this block
		for _, s := range b.Succs {
			if isBackEdge(b, s) {
				if only != nil && !only[s] {
					continue
				}
				if only != nil && fr.scratchHead == s && fr.scratchNoInv {
					fr.scratchBackStates = append(fr.scratchBackStates, st)
					continue
				}
				e.loopBack(fr, fr.loops[s], b, st, and(reach, e.edgeCond(fr, b, s)))
			}
		}
	}
}


func (e *Enc) getRaw(st *State, key string) string {
	if s, ok := st.cur[key]; ok {
		return s
	}
	n := symSafe(key) + "@0"
	e.declare(n, e.keySort[key])
	return n
}

func (e *Enc) bindDead(fr *Frame, b *ssa.BasicBlock) {
	for _, in := range b.Instrs {
		if v, ok := in.(ssa.Value); ok {
			fr.env[v] = zeroValOrLoc(v.Type())
		}
	}
}

func zeroValOrLoc(t types.Type) Val { return zeroVal(t) }

func (e *Enc) edgeCond(fr *Frame, p, b *ssa.BasicBlock) string {
	if len(p.Instrs) == 0 {
		return "true"
	}
	if iff, ok := p.Instrs[len(p.Instrs)-1].(*ssa.If); ok {
		c := e.val(fr, iff.Cond).L[0]
		if p.Succs[0] == b && p.Succs[1] == b {
			return "true"
		}
		if p.Succs[0] == b {
			return c
		}
		return not(c)
	}
	return "true"
}

func (e *Enc) iteVal(c string, a, b Val, t types.Type) Val {
	if a.Loc != nil || b.Loc != nil {
		if a.Loc != nil && b.Loc != nil && a.Loc.Kind == b.Loc.Kind && a.Loc.Base == b.Loc.Base && a.Loc.Path == b.Loc.Path && a.Loc.Parent == nil && b.Loc.Parent == nil {
			l := *a.Loc
			l.Ref = ite(c, a.Loc.Ref, b.Loc.Ref)
			if a.Loc.Idx != "" || b.Loc.Idx != "" {
				l.Idx = ite(c, a.Loc.Idx, b.Loc.Idx)
			}
			return Val{T: t, Loc: &l}
		}
		e.note("phi over structurally different pointers (degraded to opaque)")
		return e.havocVal(t, "phiopq")
	}
	if len(a.L) != len(b.L) {
		e.fatalf("internal: ite layout mismatch %s / %s", typeKey(a.T), typeKey(b.T))
		return a
	}
	v := Val{T: t, L: make([]string, len(a.L))}
	for i := range a.L {
		v.L[i] = ite(c, a.L[i], b.L[i])
	}
	return v
}

func (e *Enc) nameVal(v Val, prefix string) Val {
	if v.Loc != nil {
		return v
	}
	ls := layout(v.T)
	if len(ls) != len(v.L) {
		return v
	}
	out := Val{T: v.T, L: make([]string, len(v.L))}
	for i := range v.L {
		out.L[i] = e.define(prefix+ls[i].Path, ls[i].Sort, v.L[i])
	}
	return out
}

// coerce adapts a value to a type with identical layout (nil constants, named/unnamed).
func (e *Enc) coerce(v Val, t types.Type) Val {
	if v.Loc != nil {
		return Val{T: t, Loc: v.Loc}
	}
	ls := layout(t)
	if len(ls) == len(v.L) {
		return Val{T: t, L: v.L}
	}
	if len(v.L) == 1 && v.L[0] == c64(0) { // nil
		return zeroVal(t)
	}
	e.fatalf("internal: cannot coerce %s to %s", typeKey(v.T), typeKey(t))
	return zeroVal(t)
}

// ---------- loops ----------

func (fr *Frame) loopClauses(li *loopInfo) (invs []*Clause, dec *Clause) {
	if fr.contract == nil {
		return nil, nil
	}
	return fr.contract.Invs[li.ordinal], fr.contract.Decr[li.ordinal]
}

// loopHead: inv-init obligations, havoc of loop-modified state, assume invariants.
func (e *Enc) loopHead(fr *Frame, li *loopInfo, st *State, reach string, ins []inEdge) {
	b := li.header
	// entry values of phis
	entryPhi := map[*ssa.Phi]Val{}
	var phis []*ssa.Phi
	for _, in := range b.Instrs {
		phi, ok := in.(*ssa.Phi)
		if !ok {
			break
		}
		phis = append(phis, phi)
		var v Val
		first := true
		for i := len(ins) - 1; i >= 0; i-- {
			ie := ins[i]
			for pi, p := range b.Preds {
				if p == ie.p {
					ov := e.coerce(e.val(fr, phi.Edges[pi]), phi.Type())
					if first {
						v, first = ov, false
					} else {
						v = e.iteVal(ie.cond, ov, v, phi.Type())
					}
					break
				}
			}
		}
		if first {
			v = e.havocVal(phi.Type(), "phi")
		}
		entryPhi[phi] = v
	}
	invs, _ := fr.loopClauses(li)
	invs = append(invs, e.autoInvs(fr, li)...)
	// inv-init
	for _, phi := range phis {
		fr.env[phi] = entryPhi[phi]
	}
	for i, c := range invs {
		e.goalMode = true
		t := e.evalClauseAt(fr, c, b, *st)
		e.goalMode = false
		e.oblig(fmt.Sprintf("inv-init:%d", li.ordinal), clauseSlug(c, i), reach, t, token.NoPos, append([]string{"inv"}, c.Tags...), c.Text, c)
	}
	// discover what the loop writes: scratch pass over the body
	written := e.discoverLoopWrites(fr, li, *st, reach)
	// havoc
	pre := st.clone()
	for _, w := range written {
		srt := e.keySort[w.Key]
		if w.Key == "$alloc" {
			n := e.fresh("alloc", bv64)
			e.assume(and(app("bvule", e.getRaw(&pre, w.Key), n), app("bvult", n, bvLit(bigPow2(63), 64))))
			st.cur[w.Key] = n
			continue
		}
		if w.Ref != "" && srt.K == 'a' {
			f := e.fresh("hv", *srt.Elem)
			st.cur[w.Key] = e.define(w.Key, srt, sto(e.getRaw(&pre, w.Key), w.Ref, f))
		} else {
			st.cur[w.Key] = e.fresh("hv_"+w.Key, srt)
		}
		e.writes = append(e.writes, WriteRec{Key: w.Key, Ref: w.Ref, Abstract: true})
	}
	for _, phi := range phis {
		v := e.havocVal(phi.Type(), "phi_"+phi.Name())
		fr.env[phi] = v
		e.wfAssume(st, reach, v)
	}
	fr.headSt[b] = st.clone()
	hp := map[*ssa.Phi]Val{}
	for _, phi := range phis {
		hp[phi] = fr.env[phi]
	}
	fr.headPhi[b] = hp
	for _, c := range invs {
		t := e.evalClauseAt(fr, c, b, *st)
		e.assume(imp(reach, t))
	}
}

func clauseSlug(c *Clause, i int) string {
	t := strings.Join(strings.Fields(c.Text), " ")
	if len(t) > 80 {
		t = t[:80]
	}
	return t
}

// loopBack: inv-pres and variant obligations at a back edge.
func (e *Enc) loopBack(fr *Frame, li *loopInfo, from *ssa.BasicBlock, st State, edge string) {
	b := li.header
	edge = e.define("back", BoolS(), edge)
	invs, dec := fr.loopClauses(li)
	invs = append(invs, e.autoInvs(fr, li)...)
	// bind phis to back-edge values
	saved := map[*ssa.Phi]Val{}
	pi := -1
	for i, p := range b.Preds {
		if p == from {
			pi = i
		}
	}
	for _, in := range b.Instrs {
		phi, ok := in.(*ssa.Phi)
		if !ok {
			break
		}
		saved[phi] = fr.env[phi]
	}
	next := map[*ssa.Phi]Val{}
	for phi := range saved {
		next[phi] = e.coerce(e.val(fr, phi.Edges[pi]), phi.Type())
	}
	for phi, v := range next {
		fr.env[phi] = v
	}
	for i, c := range invs {
		e.goalMode = true
		t := e.evalClauseAt(fr, c, b, st)
		e.goalMode = false
		e.oblig(fmt.Sprintf("inv-pres:%d", li.ordinal), clauseSlug(c, i), edge, t, token.NoPos, append([]string{"inv"}, c.Tags...), c.Text, c)
	}
	if dec != nil {
		// lexicographic measure: components separated by top-level commas
		comps := decComponents(dec)
		var heads, nexts []Val
		okc := true
		for phi, v := range saved {
			fr.env[phi] = v
		}
		for _, c := range comps {
			heads = append(heads, e.evalClauseValAt(fr, c, b, fr.headSt[b]))
		}
		for phi, v := range next {
			fr.env[phi] = v
		}
		for _, c := range comps {
			nexts = append(nexts, e.evalClauseValAt(fr, c, b, st))
		}
		for k := range comps {
			if heads[k].C != nil || nexts[k].C != nil || len(heads[k].L) != 1 || !isInt(heads[k].T) {
				okc = false
			}
		}
		if !okc {
			e.fatalf("decreases clause of loop %d is not an integer expression", li.ordinal)
		} else {
			cond := "false"
			prefixEq := "true"
			for k := range comps {
				h, n := heads[k], nexts[k]
				var less string
				if isSigned(h.T) {
					less = and(app("bvslt", n.L[0], h.L[0]), app("bvsle", bvInt(0, widthOf(h.T)), h.L[0]))
				} else {
					less = app("bvult", n.L[0], h.L[0])
				}
				cond = or(cond, and(prefixEq, less))
				prefixEq = and(prefixEq, eq(n.L[0], h.L[0]))
			}
			e.oblig(fmt.Sprintf("dec:%d", li.ordinal), clauseSlug(dec, 0), edge, cond, token.NoPos, []string{"term"}, dec.Text, dec)
		}
	} else if fr.emit && e.mute == 0 && !(fr.contract != nil && fr.contract.NoTerm[li.ordinal]) {
		// try an inferred variant for counted loops
		done := false
		if v, ok := e.inferVariant(fr, li); ok {
			for phi, val := range saved {
				fr.env[phi] = val
			}
			h, sg, w, ok1 := e.evalVariantVal(fr, v, fr.headSt[b], b)
			for phi, val := range next {
				fr.env[phi] = val
			}
			n, _, _, ok2 := e.evalVariantVal(fr, v, st, b)
			if ok1 && ok2 {
				var cond string
				if sg {
					cond = and(app("bvslt", n, h), app("bvsle", bvInt(0, w), h))
				} else {
					cond = app("bvult", n, h)
				}
				e.oblig(fmt.Sprintf("dec:%d", li.ordinal), "auto:"+v.text, edge, cond, token.NoPos, []string{"term"}, "inferred variant "+v.text, nil)
				done = true
			}
		}
		if !done && !e.loopIsRangeOverMapOrString(li) {
			e.oblig(fmt.Sprintf("dec:%d", li.ordinal), "none", edge, "false", token.NoPos, []string{"term"}, "no decreases clause and no inferable variant", nil)
		}
	}
	for phi, v := range saved {
		fr.env[phi] = v
	}
}

func (e *Enc) loopIsRangeOverMapOrString(li *loopInfo) bool {
	for b := range li.body {
		for _, in := range b.Instrs {
			if _, ok := in.(*ssa.Next); ok {
				return true
			}
		}
	}
	return false
}

// discoverLoopWrites encodes the loop body once in scratch mode to find the heap keys it modifies.
func (e *Enc) discoverLoopWrites(fr *Frame, li *loopInfo, st State, reach string) []WriteRec {
	// snapshot
	nbody, nobl, nwrites, nfatal := len(e.body), len(e.obls), len(e.writes), len(e.fatal)
	startN := e.n
	savedEnv := map[ssa.Value]Val{}
	for k, v := range fr.env {
		savedEnv[k] = v
	}
	savedReach := map[*ssa.BasicBlock]string{}
	for k, v := range fr.reach {
		savedReach[k] = v
	}
	savedOut := map[*ssa.BasicBlock]State{}
	for k, v := range fr.out {
		savedOut[k] = v
	}
	oldHead, oldNoInv, oldBack := fr.scratchHead, fr.scratchNoInv, fr.scratchBackStates
	fr.scratchHead, fr.scratchNoInv, fr.scratchBackStates = li.header, true, nil
	e.mute++
	oldDisc := e.discover
	e.discover = true
	var order []*ssa.BasicBlock
	for _, b := range fr.order {
		if li.body[b] {
			order = append(order, b)
		}
	}
	e.walk(fr, order, li.body, st, reach)
	e.discover = oldDisc
	e.mute--
	// collect writes
	byKey := map[string][]string{}
	var keys []string
	for _, w := range e.writes[nwrites:] {
		if _, ok := byKey[w.Key]; !ok {
			keys = append(keys, w.Key)
		}
		byKey[w.Key] = append(byKey[w.Key], w.Ref)
	}
	sort.Strings(keys)
	var out []WriteRec
	for _, k := range keys {
		refs := byKey[k]
		ref := refs[0]
		for _, r := range refs {
			if r != ref {
				ref = ""
			}
		}
		if ref != "" {
			ref = e.expandOld(ref, startN, 0)
		}
		out = append(out, WriteRec{Key: k, Ref: ref})
	}
	// a reference is loop-invariant only if it does not read state the loop modifies
	modified := map[string]bool{}
	for _, w := range out {
		if s, ok := st.cur[w.Key]; ok {
			modified[s] = true
		} else {
			modified[symSafe(w.Key)+"@0"] = true
		}
	}
	for i := range out {
		if out[i].Ref == "" {
			continue
		}
		for _, tok := range symTokens(out[i].Ref) {
			if modified[tok] {
				out[i].Ref = ""
				break
			}
		}
	}
	// rollback
	e.body = e.body[:nbody]
	e.obls = e.obls[:nobl]
	e.writes = e.writes[:nwrites]
	e.fatal = e.fatal[:nfatal]
	fr.env = savedEnv
	fr.reach = savedReach
	fr.out = savedOut
	fr.scratchHead, fr.scratchNoInv, fr.scratchBackStates = oldHead, oldNoInv, oldBack
	return out
}

// expandOld rewrites a term so that it mentions only symbols that existed before counter value n,
// by inlining the definitions of younger defined symbols; returns "" if a younger symbol is not a definition.
func (e *Enc) expandOld(term string, n int, depth int) string {
	if depth > 12 {
		return ""
	}
	if symbolsOlderThan(term, n) {
		return term
	}
	var b strings.Builder
	i := 0
	for i < len(term) {
		c := term[i]
		if c == '(' || c == ')' || c == ' ' {
			b.WriteByte(c)
			i++
			continue
		}
		j := i
		for j < len(term) && term[j] != '(' && term[j] != ')' && term[j] != ' ' {
			j++
		}
		tok := term[i:j]
		i = j
		if k := strings.LastIndexByte(tok, '$'); k >= 0 {
			id := 0
			ok := k+1 < len(tok)
			for _, ch := range tok[k+1:] {
				if ch < '0' || ch > '9' {
					ok = false
					break
				}
				id = id*10 + int(ch-'0')
			}
			if ok && id > n {
				d, isDef := e.defs[tok]
				if !isDef {
					return ""
				}
				x := e.expandOld(d, n, depth+1)
				if x == "" {
					return ""
				}
				b.WriteString(x)
				continue
			}
		}
		b.WriteString(tok)
	}
	return b.String()
}

func symTokens(term string) []string {
	var out []string
	i := 0
	for i < len(term) {
		c := term[i]
		if c == '(' || c == ')' || c == ' ' {
			i++
			continue
		}
		j := i
		for j < len(term) && term[j] != '(' && term[j] != ')' && term[j] != ' ' {
			j++
		}
		out = append(out, term[i:j])
		i = j
	}
	return out
}

func symbolsOlderThan(term string, n int) bool {
	for i := 0; i < len(term); i++ {
		if term[i] == '$' {
			j := i + 1
			v := 0
			for j < len(term) && term[j] >= '0' && term[j] <= '9' {
				v = v*10 + int(term[j]-'0')
				j++
			}
			if j > i+1 && v > n {
				return false
			}
		}
	}
	return true
}

// ---------- name resolution ----------

// resolveVar finds the SSA value holding source variable obj at the start of block at (after its phis).
func (fr *Frame) resolveVar(e *Enc, obj types.Object, name string, at *ssa.BasicBlock, atEnd bool) (ssa.Value, bool, bool) {
	// params
	for _, p := range fr.fn.Params {
		if p.Object() == obj || (obj == nil && p.Name() == name) {
			// a reassigned parameter has later defs; fall through to look for deeper ones
			best, isAddr, ok := fr.deepestDef(obj, name, at, atEnd)
			if ok {
				return best, isAddr, true
			}
			return p, false, true
		}
	}
	for _, fv := range fr.fn.FreeVars {
		if fv.Name() == name {
			return fv, true, true
		}
	}
	return fr.deepestDef(obj, name, at, atEnd)
}

func (fr *Frame) deepestDef(obj types.Object, name string, at *ssa.BasicBlock, atEnd bool) (ssa.Value, bool, bool) {
	var best ssa.Value
	bestAddr := false
	bestDepth := -1
	bestIdx := -1
	depth := func(b *ssa.BasicBlock) int {
		d := 0
		for x := b; x != nil; x = x.Idom() {
			d++
		}
		return d
	}
	consider := func(b *ssa.BasicBlock, idx int, v ssa.Value, isAddr bool) {
		if b == at {
			if !atEnd {
				// only phis of the block itself count at block start
				if _, ok := v.(*ssa.Phi); !ok || v.(*ssa.Phi).Block() != at {
					return
				}
			}
		} else if !b.Dominates(at) {
			return
		}
		d := depth(b)
		if d > bestDepth || (d == bestDepth && idx > bestIdx) {
			best, bestAddr, bestDepth, bestIdx = v, isAddr, d, idx
		}
	}
	if obj != nil {
		for _, ds := range fr.defs[obj] {
			consider(ds.blk, ds.idx, ds.val, ds.isAddr)
		}
	}
	// phis carrying the variable's name
	for _, b := range fr.fn.Blocks {
		for i, in := range b.Instrs {
			phi, ok := in.(*ssa.Phi)
			if !ok {
				break
			}
			if phi.Comment == name {
				consider(b, i-1000, phi, false)
			}
		}
	}
	if best == nil {
		return nil, false, false
	}
	return best, bestAddr, true
}

// scratch fields
func init() {}

// decComponents splits "a, b" into component clauses (lexicographic order).
func decComponents(dec *Clause) []*Clause {
	parts := splitTop(dec.Text, ',')
	if len(parts) == 1 {
		return []*Clause{dec}
	}
	var out []*Clause
	for _, p := range parts {
		f, err := parseFormula(strings.TrimSpace(p))
		if err != nil {
			return []*Clause{dec}
		}
		out = append(out, &Clause{Kind: "decreases", F: f, Text: strings.TrimSpace(p), Loop: dec.Loop, File: dec.File, Line: dec.Line})
	}
	return out
}

package main

// Instruction-level encoding.

import (
	"bytes"
	"fmt"
	"go/ast"
	"go/constant"
	"go/printer"
	"go/token"
	"go/types"
	"math/big"
	"strings"

	"golang.org/x/tools/go/ast/astutil"
	"golang.org/x/tools/go/ssa"
)

// val returns the symbolic value of an SSA value in the frame.
func (e *Enc) val(fr *Frame, v ssa.Value) Val {
	if x, ok := fr.env[v]; ok {
		return x
	}
	switch c := v.(type) {
	case *ssa.Const:
		return e.constVal(c)
	case *ssa.Global:
		// address of a global
		return Val{T: c.Type(), Loc: &Loc{Kind: 'g', Base: "G|" + c.Pkg.Pkg.Name() + "." + c.Name(), T: derefT(c.Type())}}
	case *ssa.Function:
		r := c64(int64(e.ctx.funcID(c)))
		e.closures[r] = c
		return Val{T: c.Type(), L: []string{r}}
	case *ssa.Builtin:
		return Val{T: c.Type(), L: []string{c64(0)}}
	case *ssa.FreeVar:
		x := e.havocVal(c.Type(), "freevar_"+c.Name())
		fr.env[v] = x
		return x
	case *ssa.Parameter:
		x := e.havocVal(c.Type(), "param_"+c.Name())
		fr.env[v] = x
		return x
	}
	e.fatalf("internal: use of undefined SSA value %s (%T) in %s", v.Name(), v, fr.fn.Name())
	x := e.havocVal(v.Type(), "undef")
	fr.env[v] = x
	return x
}

func (e *Enc) constVal(c *ssa.Const) Val {
	t := c.Type()
	if c.Value == nil {
		return zeroVal(t)
	}
	switch u := t.Underlying().(type) {
	case *types.Basic:
		switch {
		case u.Info()&types.IsBoolean != 0:
			if constant.BoolVal(c.Value) {
				return Val{T: t, L: []string{"true"}}
			}
			return Val{T: t, L: []string{"false"}}
		case u.Info()&types.IsInteger != 0:
			bi, ok := constant.Val(constant.ToInt(c.Value)).(*big.Int)
			if !ok {
				if i64, ok2 := constant.Int64Val(constant.ToInt(c.Value)); ok2 {
					bi = big.NewInt(i64)
				} else {
					bi = big.NewInt(0)
				}
			}
			return Val{T: t, L: []string{bvLit(bi, widthOf(t))}}
		case u.Info()&types.IsString != 0:
			return e.strLit(constant.StringVal(c.Value), t)
		case u.Info()&types.IsFloat != 0:
			return Val{T: t, L: []string{e.floatConst(c.Value.ExactString(), layout(t)[0].Sort)}}
		}
	}
	return e.havocVal(t, "const")
}

func (e *Enc) floatConst(s string, srt Sort) string {
	n := "flt_" + symSafe(s)
	e.declare(n, srt)
	return n
}

func (e *Enc) strLit(s string, t types.Type) Val {
	if v, ok := e.strLits[s]; ok {
		return Val{T: t, L: v.L}
	}
	id := len(e.strLits) + 1
	ref := fmt.Sprintf("strlit%d", id)
	e.declare(ref, bv64)
	v := Val{T: t, L: []string{ref, c64(0), c64(int64(len(s)))}}
	e.strLits[s] = v
	// content facts (immutable memory: asserted on the initial byte memory and kept by never storing to literal regions)
	if len(s) <= 64 {
		m := symSafe("M|uint8") + "@0"
		e.keySortOf("M|uint8", BV(8))
		e.declare(m, e.keySort["M|uint8"])
		var fs []string
		for i := 0; i < len(s); i++ {
			fs = append(fs, eq(sel(sel(m, ref), c64(int64(i))), bvInt(int64(s[i]), 8)))
		}
		fs = append(fs, app("bvuge", ref, strBase), app("bvult", ref, bvLit(bigPow2(63), 64)))
		e.keySortOf("$alloc", bv64)
		e.declare(symSafe("$alloc")+"@0", bv64)
		e.decl = append(e.decl, "(assert "+and(fs...)+")")
		e.strLitRefs = append(e.strLitRefs, ref)
	}
	return v
}

func (e *Enc) exprText(pos token.Pos) string {
	if !pos.IsValid() {
		return "?"
	}
	f := e.ctx.fileOf(pos)
	if f == nil {
		return "?"
	}
	path, _ := astutil.PathEnclosingInterval(f, pos, pos)
	for _, n := range path {
		switch n.(type) {
		case ast.Expr:
			var b bytes.Buffer
			printer.Fprint(&b, e.ctx.fset, n)
			s := strings.Join(strings.Fields(b.String()), " ")
			if len(s) > 70 {
				s = s[:70]
			}
			return s
		case ast.Stmt:
			var b bytes.Buffer
			printer.Fprint(&b, e.ctx.fset, n)
			s := strings.Join(strings.Fields(b.String()), " ")
			if len(s) > 70 {
				s = s[:70]
			}
			return s
		}
	}
	return "?"
}

var safetyTag = []string{"safety"}

func (e *Enc) instr(fr *Frame, b *ssa.BasicBlock, idx int, in ssa.Instruction, st *State, reach string) {
	switch x := in.(type) {
	case *ssa.DebugRef:
		return
	case *ssa.Alloc:
		fr.env[x] = e.allocObj(st, derefT(x.Type()))
	case *ssa.BinOp:
		fr.env[x] = e.binop(fr, x, st, reach)
	case *ssa.UnOp:
		fr.env[x] = e.unop(fr, x, st, reach)
	case *ssa.Call:
		fr.env[x] = e.call(fr, b, x, x.Common(), st, reach, x.Pos())
	case *ssa.Defer:
		e.note("defer executed at defer site (order of effects not modelled)")
		e.call(fr, b, nil, x.Common(), st, reach, x.Pos())
	case *ssa.RunDefers:
		return
	case *ssa.Go:
		e.fatalf("go statement in %s", fr.fn.Name())
	case *ssa.Send, *ssa.Select:
		e.fatalf("channel operation in %s", fr.fn.Name())
	case *ssa.ChangeType:
		fr.env[x] = e.coerce(e.val(fr, x.X), x.Type())
	case *ssa.ChangeInterface:
		fr.env[x] = e.coerce(e.val(fr, x.X), x.Type())
	case *ssa.Convert:
		fr.env[x] = e.convert(fr, x, st, reach)
	case *ssa.MultiConvert:
		fr.env[x] = e.havocVal(x.Type(), "mconv")
	case *ssa.MakeInterface:
		xv := e.val(fr, x.X)
		tag := e.typeID(x.X.Type())
		var pay string
		ls := layout(x.X.Type())
		if xv.Loc == nil && len(ls) == 1 && ls[0].Kind == 'r' {
			pay = xv.L[0]
		} else {
			pay = e.fresh("box", bv64)
			e.boxed[pay] = xv
			e.assume(not(eq(pay, c64(0))))
		}
		fr.env[x] = Val{T: x.Type(), L: []string{tag, pay}}
	case *ssa.TypeAssert:
		fr.env[x] = e.typeAssert(fr, x, st, reach)
	case *ssa.Extract:
		tv := e.val(fr, x.Tuple)
		tup := x.Tuple.Type().(*types.Tuple)
		off := 0
		for i := 0; i < x.Index; i++ {
			off += len(layout(tup.At(i).Type()))
		}
		n := len(layout(tup.At(x.Index).Type()))
		if off+n > len(tv.L) {
			e.fatalf("internal: extract out of range in %s", fr.fn.Name())
			fr.env[x] = e.havocVal(x.Type(), "ext")
			return
		}
		fr.env[x] = Val{T: x.Type(), L: tv.L[off : off+n]}
	case *ssa.Field:
		sv := e.val(fr, x.X)
		stt := x.X.Type().Underlying().(*types.Struct)
		off := 0
		for i := 0; i < x.Field; i++ {
			off += len(layout(stt.Field(i).Type()))
		}
		n := len(layout(stt.Field(x.Field).Type()))
		fr.env[x] = Val{T: x.Type(), L: sv.L[off : off+n]}
	case *ssa.FieldAddr:
		pv := e.val(fr, x.X)
		stt := derefT(x.X.Type()).Underlying().(*types.Struct)
		f := stt.Field(x.Field)
		var loc *Loc
		if pv.Loc != nil {
			l := *pv.Loc
			l.Path += "." + f.Name()
			l.T = f.Type()
			loc = &l
		} else {
			e.obligAndAssume("nil", e.exprText(x.Pos()), reach, not(eq(pv.L[0], c64(0))), x.Pos(), safetyTag, "nil dereference")
			loc = &Loc{Kind: 'f', Base: "H|" + typeKey(derefT(x.X.Type())), Path: "." + f.Name(), Ref: pv.L[0], T: f.Type()}
		}
		fr.env[x] = Val{T: x.Type(), Loc: loc}
	case *ssa.IndexAddr:
		fr.env[x] = e.indexAddr(fr, x, st, reach)
	case *ssa.Index:
		av := e.val(fr, x.X)
		iv := e.val(fr, x.Index)
		i64 := e.toIndex(iv)
		if isString(x.X.Type()) {
			e.obligAndAssume("idx", e.exprText(x.Pos()), reach, app("bvult", i64, av.sLen()), x.Pos(), safetyTag, "string index out of range")
			fr.env[x] = Val{T: x.Type(), L: []string{sel(sel(e.get(st, "M|uint8", BV(8)), av.sRef()), bvadd(av.sOff(), i64))}}
			return
		}
		arr, ok := x.X.Type().Underlying().(*types.Array)
		if !ok {
			fr.env[x] = e.havocVal(x.Type(), "idx")
			return
		}
		e.obligAndAssume("idx", e.exprText(x.Pos()), reach, app("bvult", i64, c64(arr.Len())), x.Pos(), safetyTag, "array index out of range")
		ls := layout(x.X.Type())
		if len(ls) == 1 && ls[0].Sort.K == 'a' {
			fr.env[x] = Val{T: x.Type(), L: []string{sel(av.L[0], i64)}}
		} else {
			fr.env[x] = e.havocVal(x.Type(), "idx")
		}
	case *ssa.Lookup:
		xv := e.val(fr, x.X)
		if isString(x.X.Type()) {
			i64 := e.toIndex(e.val(fr, x.Index))
			e.obligAndAssume("idx", e.exprText(x.Pos()), reach, app("bvult", i64, xv.sLen()), x.Pos(), safetyTag, "string index out of range")
			fr.env[x] = Val{T: x.Type(), L: []string{sel(sel(e.get(st, "M|uint8", BV(8)), xv.sRef()), bvadd(xv.sOff(), i64))}}
			return
		}
		fr.env[x] = e.mapLookup(fr, x, st, reach)
	case *ssa.MakeSlice:
		ln := e.toIndex(e.val(fr, x.Len))
		cp := e.toIndex(e.val(fr, x.Cap))
		e.obligAndAssume("make", e.exprText(x.Pos()), reach, and(app("bvsle", c64(0), ln), app("bvsle", ln, cp), app("bvsle", cp, c64(maxLen))), x.Pos(), safetyTag, "make: length out of range")
		et := x.Type().Underlying().(*types.Slice).Elem()
		r := e.newRef(st)
		for _, l := range layout(et) {
			key := "M|" + typeKey(et) + l.Path
			e.set(st, key, l.Sort, sto(e.get(st, key, l.Sort), r, ArrS(l.Sort).Zero()), r)
		}
		e.allocNote(fr, st, reach, x, cp, et)
		fr.env[x] = Val{T: x.Type(), L: []string{r, c64(0), e.define("len", bv64, ln), e.define("cap", bv64, cp)}}
	case *ssa.MakeMap, *ssa.MakeChan:
		fr.env[x.(ssa.Value)] = Val{T: x.(ssa.Value).Type(), L: []string{e.newRef(st)}}
	case *ssa.MakeClosure:
		r := e.newRef(st)
		if f, ok := x.Fn.(*ssa.Function); ok {
			e.closures[r] = f
			// captured variables
			var bs []Val
			for _, bnd := range x.Bindings {
				bs = append(bs, e.val(fr, bnd))
			}
			e.closureBinds[r] = bs
		}
		fr.env[x] = Val{T: x.Type(), L: []string{r}}
	case *ssa.MapUpdate:
		e.mapUpdate(fr, x, st, reach)
	case *ssa.Range:
		fr.env[x] = Val{T: x.Type(), L: []string{e.fresh("iter", bv64)}}
	case *ssa.Next:
		fr.env[x] = e.havocVal(x.Type(), "next")
		e.wfAssume(st, reach, fr.env[x])
	case *ssa.Slice:
		fr.env[x] = e.sliceOp(fr, x, st, reach)
	case *ssa.SliceToArrayPointer:
		e.note("slice to array pointer conversion (opaque)")
		fr.env[x] = e.havocVal(x.Type(), "s2a")
	case *ssa.Store:
		pv := e.val(fr, x.Addr)
		vv := e.coerceStore(e.val(fr, x.Val), derefT(x.Addr.Type()))
		if pv.Loc == nil {
			e.obligAndAssume("nil", e.exprText(x.Pos()), reach, not(eq(pv.L[0], c64(0))), x.Pos(), safetyTag, "nil dereference (store)")
		}
		e.storePtr(st, pv, vv)
	case *ssa.If, *ssa.Jump:
		return
	case *ssa.Return:
		var vs []Val
		for _, r := range x.Results {
			vs = append(vs, e.val(fr, r))
		}
		fr.rets = append(fr.rets, retInfo{reach, vs, st.clone(), x.Pos()})
	case *ssa.Panic:
		txt := e.exprText(x.Pos())
		e.oblig("panic", txt, reach, "false", x.Pos(), safetyTag, "explicit panic reachable", nil)
		fr.panics = append(fr.panics, reach)
	default:
		e.fatalf("unsupported instruction %T in %s", in, fr.fn.Name())
		if v, ok := in.(ssa.Value); ok {
			fr.env[v] = e.havocVal(v.Type(), "unsup")
		}
	}
}

func (e *Enc) coerceStore(v Val, t types.Type) Val {
	if t == nil {
		return v
	}
	return e.coerce(v, t)
}

// toIndex converts an integer value to a 64-bit signed index term.
func (e *Enc) toIndex(v Val) string {
	if len(v.L) != 1 {
		return c64(0)
	}
	return resize(v.L[0], widthOf(v.T), 64, isSigned(v.T))
}

func (e *Enc) indexAddr(fr *Frame, x *ssa.IndexAddr, st *State, reach string) Val {
	bv := e.val(fr, x.X)
	i64 := e.define("i", bv64, e.toIndex(e.val(fr, x.Index)))
	switch u := x.X.Type().Underlying().(type) {
	case *types.Slice:
		e.obligAndAssume("idx", e.exprText(x.Pos()), reach, app("bvult", i64, bv.sLen()), x.Pos(), safetyTag, "index out of range")
		et := u.Elem()
		return Val{T: x.Type(), Loc: &Loc{Kind: 'e', Base: "M|" + typeKey(et), Ref: bv.sRef(), Idx: e.define("ix", bv64, bvadd(bv.sOff(), i64)), T: et}}
	case *types.Pointer:
		arr := u.Elem().Underlying().(*types.Array)
		e.obligAndAssume("idx", e.exprText(x.Pos()), reach, app("bvult", i64, c64(arr.Len())), x.Pos(), safetyTag, "array index out of range")
		if bv.Loc != nil {
			return Val{T: x.Type(), Loc: &Loc{Kind: 'a', Parent: bv.Loc, Idx: i64, T: arr.Elem()}}
		}
		e.obligAndAssume("nil", e.exprText(x.Pos()), reach, not(eq(bv.L[0], c64(0))), x.Pos(), safetyTag, "nil array pointer")
		return Val{T: x.Type(), Loc: &Loc{Kind: 'e', Base: "M|" + typeKey(arr.Elem()), Ref: bv.L[0], Idx: i64, T: arr.Elem()}}
	}
	e.fatalf("IndexAddr on %s", typeKey(x.X.Type()))
	return e.havocVal(x.Type(), "ia")
}

func (e *Enc) sliceOp(fr *Frame, x *ssa.Slice, st *State, reach string) Val {
	bv := e.val(fr, x.X)
	var ref, off, ln, cp string
	isStr := isString(x.X.Type())
	switch u := x.X.Type().Underlying().(type) {
	case *types.Slice, *types.Basic:
		ref, off, ln, cp = bv.sRef(), bv.sOff(), bv.sLen(), bv.sCap()
	case *types.Pointer:
		arr := u.Elem().Underlying().(*types.Array)
		if bv.Loc != nil {
			e.note("slicing an array embedded in a struct (aliasing not modelled; fresh region)")
			r := e.havocVal(x.Type(), "arrslice")
			e.wfAssume(st, reach, r)
			e.assume(imp(reach, and(eq(r.sLen(), c64(arr.Len())), eq(r.sCap(), c64(arr.Len())))))
			ref, off, ln, cp = r.sRef(), r.sOff(), r.sLen(), r.sCap()
		} else {
			ref, off, ln, cp = bv.L[0], c64(0), c64(arr.Len()), c64(arr.Len())
		}
	default:
		e.fatalf("Slice on %s", typeKey(x.X.Type()))
		return e.havocVal(x.Type(), "sl")
	}
	low := c64(0)
	if x.Low != nil {
		low = e.define("lo", bv64, e.toIndex(e.val(fr, x.Low)))
	}
	high := ln
	if x.High != nil {
		high = e.define("hi", bv64, e.toIndex(e.val(fr, x.High)))
	}
	limit := cp
	if isStr {
		limit = ln
	}
	mx := cp
	if x.Max != nil {
		mx = e.define("mx", bv64, e.toIndex(e.val(fr, x.Max)))
	}
	cond := and(app("bvsle", c64(0), low), app("bvsle", low, high), app("bvsle", high, mx), app("bvsle", mx, limit))
	if x.Max == nil {
		cond = and(app("bvsle", c64(0), low), app("bvsle", low, high), app("bvsle", high, limit))
	}
	e.obligAndAssume("slice", e.exprText(x.Pos()), reach, cond, x.Pos(), safetyTag, "slice bounds out of range")
	nl := e.define("len", bv64, app("bvsub", high, low))
	noff := e.define("off", bv64, bvadd(off, low))
	if isStr {
		return Val{T: x.Type(), L: []string{ref, noff, nl}}
	}
	nc := e.define("cap", bv64, app("bvsub", mx, low))
	return Val{T: x.Type(), L: []string{ref, noff, nl, nc}}
}

func (e *Enc) binop(fr *Frame, x *ssa.BinOp, st *State, reach string) Val {
	a, b := e.val(fr, x.X), e.val(fr, x.Y)
	t := x.X.Type()
	rt := x.Type()
	bool1 := func(s string) Val { return Val{T: rt, L: []string{e.define(x.Name(), BoolS(), s)}} }
	switch {
	case isString(t) && (isString(x.Y.Type())):
		switch x.Op {
		case token.ADD:
			r := e.havocVal(rt, "concat")
			e.wfAssume(st, reach, r)
			e.assume(imp(reach, eq(r.sLen(), bvadd(a.sLen(), b.sLen()))))
			return r
		case token.EQL, token.NEQ:
			c := e.strEq(st, x.X, x.Y, a, b)
			if x.Op == token.NEQ {
				c = not(c)
			}
			return bool1(c)
		default:
			return bool1(e.fresh("strcmp", BoolS()))
		}
	case isFloat(t):
		if isBool(rt) {
			return bool1(e.fresh("fcmp", BoolS()))
		}
		return e.havocVal(rt, "fop")
	case isBool(t):
		switch x.Op {
		case token.EQL:
			return bool1(eq(a.L[0], b.L[0]))
		case token.NEQ:
			return bool1(not(eq(a.L[0], b.L[0])))
		case token.AND, token.LAND:
			return bool1(and(a.L[0], b.L[0]))
		case token.OR, token.LOR:
			return bool1(or(a.L[0], b.L[0]))
		}
	case isInt(t):
		w := widthOf(t)
		sg := isSigned(t)
		A, B := a.L[0], b.L[0]
		cmp := func(us, ss string) Val {
			if sg {
				return bool1(app(ss, A, B))
			}
			return bool1(app(us, A, B))
		}
		int1 := func(s string) Val { return Val{T: rt, L: []string{e.define(x.Name(), BV(w), s)}} }
		switch x.Op {
		case token.ADD:
			return int1(app("bvadd", A, B))
		case token.SUB:
			return int1(app("bvsub", A, B))
		case token.MUL:
			return int1(app("bvmul", A, B))
		case token.QUO, token.REM:
			e.obligAndAssume("div", e.exprText(x.Pos()), reach, not(eq(B, bvInt(0, w))), x.Pos(), safetyTag, "division by zero")
			op := map[bool]map[token.Token]string{true: {token.QUO: "bvsdiv", token.REM: "bvsrem"}, false: {token.QUO: "bvudiv", token.REM: "bvurem"}}[sg][x.Op]
			return int1(app(op, A, B))
		case token.AND:
			return int1(app("bvand", A, B))
		case token.OR:
			return int1(app("bvor", A, B))
		case token.XOR:
			return int1(app("bvxor", A, B))
		case token.AND_NOT:
			return int1(app("bvand", A, app("bvnot", B)))
		case token.SHL, token.SHR:
			yw := widthOf(x.Y.Type())
			ysg := isSigned(x.Y.Type())
			if ysg {
				e.obligAndAssume("shift", e.exprText(x.Pos()), reach, app("bvsle", bvInt(0, yw), B), x.Pos(), safetyTag, "negative shift count")
			}
			return int1(shiftTerm(x.Op == token.SHL, sg, A, w, B, yw))
		case token.EQL:
			return bool1(eq(A, B))
		case token.NEQ:
			return bool1(not(eq(A, B)))
		case token.LSS:
			return cmp("bvult", "bvslt")
		case token.LEQ:
			return cmp("bvule", "bvsle")
		case token.GTR:
			return cmp("bvugt", "bvsgt")
		case token.GEQ:
			return cmp("bvuge", "bvsge")
		}
	default:
		// pointers, interfaces, slices (vs nil), structs: equality only
		if x.Op == token.EQL || x.Op == token.NEQ {
			b2 := e.coerceCmp(b, a)
			a2 := e.coerceCmp(a, b2)
			var c string
			if a2.Loc != nil || b2.Loc != nil {
				if (a2.Loc != nil) != (b2.Loc != nil) {
					// structural pointer vs value: a structural pointer is never nil
					other := b2
					if a2.Loc == nil {
						other = a2
					}
					if len(other.L) == 1 && other.L[0] == c64(0) {
						c = "false"
					} else {
						c = e.fresh("ptreq", BoolS())
					}
				} else {
					c = e.fresh("ptreq", BoolS())
				}
			} else if isIface(t) || isIface(x.Y.Type()) {
				c = and(eq(a2.L[0], b2.L[0]), eq(a2.L[1], b2.L[1]))
			} else if _, ok := t.Underlying().(*types.Slice); ok {
				// only comparison with nil is legal
				c = eq(a2.L[0], b2.L[0])
			} else {
				var cs []string
				for i := range a2.L {
					if i < len(b2.L) {
						cs = append(cs, eq(a2.L[i], b2.L[i]))
					}
				}
				c = and(cs...)
			}
			if x.Op == token.NEQ {
				c = not(c)
			}
			return bool1(c)
		}
	}
	e.note("unmodelled binary operation %s on %s", x.Op, typeKey(t))
	return e.havocVal(rt, "binop")
}

func (e *Enc) coerceCmp(v Val, like Val) Val {
	if v.Loc != nil {
		return v
	}
	if like.Loc == nil && len(v.L) != len(like.L) && len(v.L) == 1 && v.L[0] == c64(0) && like.T != nil {
		return zeroVal(like.T)
	}
	return v
}

func shiftTerm(left, signed bool, A string, w int, B string, yw int) string {
	// count compared in its own width, then adapted
	var cnt string
	if yw >= w {
		cnt = resize(B, yw, w, false)
	} else {
		cnt = resize(B, yw, w, false)
	}
	var big string
	if yw > w {
		big = app("bvuge", B, bvInt(int64(w), yw))
	} else {
		big = app("bvuge", cnt, bvInt(int64(w), w))
	}
	if left {
		return ite(big, bvInt(0, w), app("bvshl", A, cnt))
	}
	if signed {
		return ite(big, app("bvashr", A, bvInt(int64(w-1), w)), app("bvashr", A, cnt))
	}
	return ite(big, bvInt(0, w), app("bvlshr", A, cnt))
}

func (e *Enc) strEq(st *State, xs, ys ssa.Value, a, b Val) string {
	// constant on one side: expand bytes
	lit := func(v ssa.Value) (string, bool) {
		if c, ok := v.(*ssa.Const); ok && c.Value != nil && c.Value.Kind() == constant.String {
			return constant.StringVal(c.Value), true
		}
		return "", false
	}
	if s, ok := lit(ys); ok && len(s) <= 16 {
		return e.strEqLit(st, a, s)
	}
	if s, ok := lit(xs); ok && len(s) <= 16 {
		return e.strEqLit(st, b, s)
	}
	// general: equal lengths and uninterpreted content equality
	f := e.fresh("streq", BoolS())
	e.assume(imp(f, eq(a.sLen(), b.sLen())))
	e.assume(imp(and(eq(a.sRef(), b.sRef()), eq(a.sOff(), b.sOff()), eq(a.sLen(), b.sLen())), f))
	return f
}

func (e *Enc) strEqLit(st *State, a Val, s string) string {
	m := e.get(st, "M|uint8", BV(8))
	cs := []string{eq(a.sLen(), c64(int64(len(s))))}
	for i := 0; i < len(s); i++ {
		cs = append(cs, eq(sel(sel(m, a.sRef()), bvadd(a.sOff(), c64(int64(i)))), bvInt(int64(s[i]), 8)))
	}
	return and(cs...)
}

func (e *Enc) unop(fr *Frame, x *ssa.UnOp, st *State, reach string) Val {
	a := e.val(fr, x.X)
	switch x.Op {
	case token.NOT:
		return Val{T: x.Type(), L: []string{not(a.L[0])}}
	case token.SUB:
		if isInt(x.Type()) {
			return Val{T: x.Type(), L: []string{e.define(x.Name(), BV(widthOf(x.Type())), app("bvneg", a.L[0]))}}
		}
		return e.havocVal(x.Type(), "fneg")
	case token.XOR:
		return Val{T: x.Type(), L: []string{e.define(x.Name(), BV(widthOf(x.Type())), app("bvnot", a.L[0]))}}
	case token.MUL:
		if a.Loc == nil {
			e.obligAndAssume("nil", e.exprText(x.Pos()), reach, not(eq(a.L[0], c64(0))), x.Pos(), safetyTag, "nil dereference (load)")
		}
		v := e.loadPtr(st, a)
		v.T = x.Type()
		e.wfAssume(st, reach, v)
		return e.nameVal(v, x.Name())
	case token.ARROW:
		e.fatalf("channel receive in %s", fr.fn.Name())
	}
	return e.havocVal(x.Type(), "unop")
}

func (e *Enc) convert(fr *Frame, x *ssa.Convert, st *State, reach string) Val {
	a := e.val(fr, x.X)
	from, to := x.X.Type(), x.Type()
	switch {
	case isInt(from) && isInt(to):
		return Val{T: to, L: []string{e.define(x.Name(), BV(widthOf(to)), resize(a.L[0], widthOf(from), widthOf(to), isSigned(from)))}}
	case isString(from) && isString(to):
		return Val{T: to, L: a.L}
	case isString(to) && isSliceLike(from):
		// string(bytes): immutable copy; modelled as a fresh region with equal content
		return e.copyRegion(st, reach, a, to)
	case isString(from) && isSliceLike(to):
		return e.copyRegion(st, reach, a, to)
	case isPtr(from) || isPtr(to):
		// unsafe.Pointer conversions
		if a.Loc != nil {
			e.note("unsafe pointer conversion of structural pointer")
			return e.havocVal(to, "uptr")
		}
		if len(a.L) == 1 {
			return Val{T: to, L: a.L}
		}
	}
	if bsc, ok := from.Underlying().(*types.Basic); ok && bsc.Kind() == types.UnsafePointer {
		return Val{T: to, L: a.L}
	}
	if bsc, ok := to.Underlying().(*types.Basic); ok && bsc.Kind() == types.UnsafePointer && a.Loc == nil {
		return Val{T: to, L: a.L}
	}
	if !isFloat(from) && !isFloat(to) {
		e.note("unmodelled conversion %s -> %s", typeKey(from), typeKey(to))
	}
	r := e.havocVal(to, "conv")
	e.wfAssume(st, reach, r)
	// int(math.Ceil(math.Log2(x))) for x converted from an unsigned 64-bit integer: 0..64, or the minimum integer for x == 0 (trusted float model)
	if isFloat(from) && isInt(to) && widthOf(to) == 64 {
		if c1, ok := x.X.(*ssa.Call); ok && c1.Common().StaticCallee() != nil && e.ctx.funcKey(c1.Common().StaticCallee()) == "math.Ceil" {
			if c2, ok := c1.Common().Args[0].(*ssa.Call); ok && c2.Common().StaticCallee() != nil && e.ctx.funcKey(c2.Common().StaticCallee()) == "math.Log2" {
				noteExternal("math.Ceil(math.Log2(float64(u)))")
				e.assume(imp(reach, or(eq(r.L[0], bvLit(new(big.Int).Lsh(big.NewInt(1), 63), 64)), and(app("bvsle", c64(0), r.L[0]), app("bvsle", r.L[0], c64(64))))))
			}
		}
	}
	return r
}

// copyRegion models string<->[]byte conversion: fresh region holding the same bytes.
func (e *Enc) copyRegion(st *State, reach string, a Val, to types.Type) Val {
	r := e.newRef(st)
	if isString(to) {
		r = e.define("sref", bv64, app("bvor", r, strBase)) // string storage: see wfAssume
	}
	m := e.get(st, "M|uint8", BV(8))
	// new region content: shifted view of the old region (lambda-free: use an uninterpreted inner array with a quantified link)
	inner := e.fresh("cpy", ArrS(BV(8)))
	e.assume(imp(reach, fmt.Sprintf("(forall ((j (_ BitVec 64))) (! (=> (and (bvsle (_ bv0 64) j) (bvslt j %s)) (= (select %s j) (select (select %s %s) (bvadd %s j)))) :pattern ((select %s j))))", a.sLen(), inner, m, a.sRef(), a.sOff(), inner)))
	e.set(st, "M|uint8", BV(8), sto(m, r, inner), r)
	if isString(to) {
		return Val{T: to, L: []string{r, c64(0), a.sLen()}}
	}
	return Val{T: to, L: []string{r, c64(0), a.sLen(), a.sLen()}}
}

func (e *Enc) typeAssert(fr *Frame, x *ssa.TypeAssert, st *State, reach string) Val {
	a := e.val(fr, x.X)
	tag, pay := a.L[0], a.L[1]
	var ok string
	var v Val
	if isIface(x.AssertedType) {
		okc := e.implTerm(x.AssertedType, tag)
		e.assume(imp(okc, not(eq(tag, c64(0)))))
		if it, isI := x.AssertedType.Underlying().(*types.Interface); isI && it.NumMethods() == 0 {
			e.assume(imp(not(eq(tag, c64(0))), okc))
		}
		// if the dynamic type is statically evident, decide
		ok = okc
		v = Val{T: x.AssertedType, L: []string{ite(ok, tag, c64(0)), ite(ok, pay, c64(0))}}
	} else {
		ok = eq(tag, e.typeID(x.AssertedType))
		ls := layout(x.AssertedType)
		if len(ls) == 1 && ls[0].Kind == 'r' {
			v = Val{T: x.AssertedType, L: []string{ite(ok, pay, c64(0))}}
		} else if bx, found := e.boxed[pay]; found && bx.Loc == nil && len(bx.L) == len(ls) {
			v = Val{T: x.AssertedType, L: bx.L}
		} else {
			v = e.havocVal(x.AssertedType, "unbox")
			e.wfAssume(st, reach, v)
		}
	}
	if !x.CommaOk {
		e.obligAndAssume("typeassert", e.exprText(x.Pos()), reach, ok, x.Pos(), safetyTag, "type assertion may fail")
		return v
	}
	okn := e.define("ok", BoolS(), ok)
	return Val{T: x.Type(), L: append(append([]string{}, v.L...), okn)}
}

func (e *Enc) mapLookup(fr *Frame, x *ssa.Lookup, st *State, reach string) Val {
	mv := e.val(fr, x.X)
	kv := e.val(fr, x.Index)
	mt := x.X.Type().Underlying().(*types.Map)
	// constant global maps with literal initialisers: finite function
	if r, ok := e.ctx.constMapLookup(e, fr, x, mv, kv, mt); ok {
		return r
	}
	r := e.havocVal(x.Type(), "maplk")
	e.wfAssume(st, reach, r)
	// maps handed to the library are assumed not to hold nil pointers: v, ok := m[k] with ok true gives a non-nil v
	if x.CommaOk {
		if _, isP := mt.Elem().Underlying().(*types.Pointer); isP && len(r.L) == 2 {
			e.assume(imp(reach, imp(r.L[1], not(eq(r.L[0], c64(0))))))
			e.note("assumed: pointer values stored in maps are non-nil")
		}
	}
	return r
}

func (e *Enc) mapUpdate(fr *Frame, x *ssa.MapUpdate, st *State, reach string) {
	mv := e.val(fr, x.Map)
	if mv.Loc == nil {
		e.obligAndAssume("nil", e.exprText(x.Pos()), reach, not(eq(mv.L[0], c64(0))), x.Pos(), safetyTag, "assignment to entry in nil map")
	}
}

// allocNote records allocation sites for linear-allocation obligations (filled in by alloc.go).
func (e *Enc) allocNote(fr *Frame, st *State, reach string, x ssa.Instruction, ln string, et types.Type) {
	if e.allocHook != nil {
		e.allocHook(fr, st, reach, x, ln, et)
	}
}

// implTerm: whether the dynamic type identified by tag implements interface type it (an uninterpreted function of the tag,
// so repeated assertions on the same value agree).
func (e *Enc) implTerm(it types.Type, tag string) string {
	fn := "IMPL!" + symSafe(typeKeyFull(it))
	if !e.declSeen[fn] {
		e.declSeen[fn] = true
		e.decl = append(e.decl, "(declare-fun "+fn+" ((_ BitVec 64)) Bool)")
	}
	return "(" + fn + " " + tag + ")"
}

package main

import (
	"flag"
	"fmt"
	"os"
	"regexp"
	"sort"
	"strings"
	"sync"
	"time"

	"golang.org/x/tools/go/ssa"
)

func main() {
	if len(os.Args) < 2 {
		fmt.Fprintln(os.Stderr, "usage: govc verify|check|frames ...")
		os.Exit(2)
	}
	switch os.Args[1] {
	case "verify":
		cmdVerify(os.Args[2:])
	case "check":
		cmdCheck(os.Args[2:])
	case "cache-export":
		cacheExport()
	default:
		fmt.Fprintln(os.Stderr, "unknown command")
		os.Exit(2)
	}
}

type selector struct {
	Funcs string   `json:"funcs"` // regexp on function key
	Kinds []string `json:"kinds"` // obligation kind prefixes: idx slice nil div make typeassert shift panic pre post inv-init inv-pres dec frame
	Tag   string   `json:"tag"`   // for post/inv: clause tag that must be present ("" = any)
	TaggedOnly bool `json:"tagged_only"` // post obligations of untagged (infrastructure) clauses are left to the check that owns them
	Exclude string `json:"exclude"` // regexp on function keys left out (with the reason given in the property file)
	re    *regexp.Regexp
	reEx  *regexp.Regexp
}

var safetyKinds = []string{"idx", "slice", "nil", "div", "make", "typeassert", "shift", "panic", "devirt", "alloc"}

func (s *selector) match(o *Obl) bool {
	if s.re == nil {
		s.re = regexp.MustCompile(s.Funcs)
	}
	if !s.re.MatchString(o.Func) {
		return false
	}
	if s.Exclude != "" {
		if s.reEx == nil {
			s.reEx = regexp.MustCompile(s.Exclude)
		}
		if s.reEx.MatchString(o.Func) {
			return false
		}
	}
	kind := o.Kind
	if i := strings.Index(kind, ":"); i >= 0 {
		kind = kind[:i]
	}
	ok := false
	for _, k := range s.Kinds {
		if k == kind || (k == "safety" && contains(safetyKinds, kind)) || (k == "inv" && strings.HasPrefix(kind, "inv-")) {
			ok = true
		}
	}
	if !ok {
		return false
	}
	if s.TaggedOnly && kind == "post" && (o.Clause == nil || !contains(o.Clause.Tags, s.Tag)) {
		return false
	}
	if s.Tag != "" && kind == "post" && o.Clause != nil && len(o.Clause.Tags) > 0 && !contains(o.Clause.Tags, s.Tag) {
		// untagged clauses are infrastructure and serve every property; tagged ones only their own
		return false
	}
	return true
}

func contains(xs []string, x string) bool {
	for _, y := range xs {
		if x == y {
			return true
		}
	}
	return false
}

func cmdVerify(args []string) {
	fs := flag.NewFlagSet("verify", flag.ExitOnError)
	pkgs := fs.String("pkgs", "./bits", "package patterns (comma separated)")
	funcs := fs.String("funcs", ".*", "regexp on function keys")
	kinds := fs.String("kinds", "safety,pre,post,inv-init,inv-pres,dec,frame", "obligation kinds")
	tag := fs.String("tag", "", "clause tag")
	timeout := fs.Int("timeout", 10000, "per-query timeout ms")
	dump := fs.String("dump", "", "write scripts of failing obligations to this dir")
	verbose := fs.Bool("v", false, "list every obligation")
	nocache := fs.Bool("nocache", false, "ignore cache")
	houdini := fs.Bool("houdini", true, "infer loop invariants from candidates")
	split := fs.Bool("split", false, "for failing conjunctive goals, report which conjuncts fail")
	fs.Parse(args)
	useCache = !*nocache
	t0 := time.Now()
	ctx, err := loadProgram(repoDir(), strings.Split(*pkgs, ","))
	if err != nil {
		fmt.Fprintln(os.Stderr, "load:", err)
		os.Exit(2)
	}
	for _, e := range ctx.cs.Errors {
		fmt.Println("CONTRACT ERROR:", e)
	}
	fmt.Printf("loaded in %.1fs; %d functions, %d contracts\n", time.Since(t0).Seconds(), len(ctx.funcs), len(ctx.cs.ByFunc))
	sel := &selector{Funcs: *funcs, Kinds: strings.Split(*kinds, ","), Tag: *tag}
	re := regexp.MustCompile(*funcs)
	var fns []*ssa.Function
	for _, k := range ctx.sortedFuncKeys() {
		if re.MatchString(k) {
			fns = append(fns, ctx.funcs[k])
		}
	}
	results := verifyAll(ctx, fns, []*selector{sel}, *timeout, *houdini)
	nOK, nBad := 0, 0
	for _, r := range results {
		for _, f := range r.Fatal {
			fmt.Printf("FATAL %s: %s\n", r.Key, f)
		}
		for i, o := range r.Obls {
			if o.Status == "" {
				continue
			}
			if o.Status == "unsat" {
				nOK++
				if *verbose {
					fmt.Printf("  ok   %-8s %s  [%s %.2fs]\n", o.Kind, o.Name, o.Solver, o.Secs)
				}
			} else {
				nBad++
				fmt.Printf("  FAIL %-8s %s  [%s %s %.2fs] %s\n", o.Kind, o.Name, o.Status, o.Solver, o.Secs, o.PosStr)
				if *split {
					splitReport(r, i)
				}
				if *dump != "" {
					os.MkdirAll(*dump, 0o755)
					os.WriteFile(fmt.Sprintf("%s/%s-%d.smt2", *dump, symSafe(shortKey(r.Key)), i), []byte(singleScript(r, i, true)), 0o644)
				}
			}
		}
		if *verbose {
			for _, n := range r.Notes {
				fmt.Printf("  note %s: %s\n", shortKey(r.Key), n)
			}
		}
	}
	fmt.Printf("obligations: %d discharged, %d not; %.1fs\n", nOK, nBad, time.Since(t0).Seconds())
	if nBad > 0 {
		os.Exit(1)
	}
}

// verifyAll encodes and discharges the selected obligations of the given functions in parallel.
func verifyAll(ctx *Ctx, fns []*ssa.Function, sels []*selector, timeoutMs int, houdini bool) []*FuncResult {
	results := make([]*FuncResult, len(fns))
	var wg sync.WaitGroup
	sem := make(chan struct{}, 12)
	for i, fn := range fns {
		wg.Add(1)
		go func(i int, fn *ssa.Function) {
			defer wg.Done()
			sem <- struct{}{}
			defer func() { <-sem }()
			t0 := time.Now()
			results[i] = verifyOne(ctx, fn, sels, timeoutMs, houdini)
			if os.Getenv("GOVC_PROGRESS") != "" {
				n, bad := 0, 0
				for _, o := range results[i].Obls {
					if o.Status != "" {
						n++
						if o.Status != "unsat" {
							bad++
						}
					}
				}
				fmt.Fprintf(os.Stderr, "[%6.1fs] %s: %d obligations, %d undischarged, %d script lines\n", time.Since(t0).Seconds(), shortKey(results[i].Key), n, bad, len(results[i].Script))
			}
		}(i, fn)
	}
	wg.Wait()
	sort.SliceStable(results, func(a, b int) bool { return results[a].Key < results[b].Key })
	return results
}

func verifyOne(ctx *Ctx, fn *ssa.Function, sels []*selector, timeoutMs int, houdini bool) (res *FuncResult) {
	defer func() {
		if r := recover(); r != nil {
			res = &FuncResult{Key: ctx.funcKey(fn), Fatal: []string{fmt.Sprintf("internal error: %v", r)}}
			res.Obls = []*Obl{{Name: ctx.funcKey(fn) + "#internal", Kind: "internal", Func: ctx.funcKey(fn), Goal: "false", Status: "error", Output: fmt.Sprint(r)}}
		}
	}()
	opt := &EncOpts{AutoInv: map[string][]*Clause{}, Cand: map[string][]*Clause{}}
	if houdini {
		inferInvariants(ctx, fn, opt, timeoutMs)
	}
	res = ctx.verifyFunc(fn, opt)
	selected := map[int]bool{}
	for i, o := range res.Obls {
		for _, s := range sels {
			if s.match(o) {
				selected[i] = true
			}
		}
	}
	if len(res.Fatal) > 0 && len(selected) == 0 {
		// the function left the verifier's reach: that is itself an undischarged obligation
		o := &Obl{Name: res.Key + "#reach", Kind: "reach", Func: res.Key, Goal: "false", Status: "error", Output: strings.Join(res.Fatal, "; ")}
		res.Obls = append(res.Obls, o)
		return res
	}
	discharge(res, selected, timeoutMs)
	return res
}

// splitReport re-checks the conjuncts of a failing goal one by one (diagnostic only).
func splitReport(r *FuncResult, i int) {
	o := r.Obls[i]
	root := parseSx(o.Goal)
	reach := "true"
	body := root
	if root.isApp("=>") && len(root.kids) == 3 {
		reach = root.kids[1].String()
		body = root.kids[2]
	}
	var conj []*sx
	var flat func(n *sx)
	flat = func(n *sx) {
		if n.isApp("and") {
			for _, k := range n.kids[1:] {
				flat(k)
			}
			return
		}
		if n.isApp("=>") && len(n.kids) == 3 && n.kids[2].isApp("and") {
			for _, k := range n.kids[2].kids[1:] {
				flat(&sx{kids: []*sx{{atom: "=>"}, n.kids[1], k}})
			}
			return
		}
		conj = append(conj, n)
	}
	flat(body)
	if len(conj) < 2 {
		return
	}
	saved := o.Goal
	for _, c := range conj {
		o.Goal = imp(reach, c.String())
		script := singleScript(r, i, false)
		f := tmpFile("split", script)
		out, _ := runSolver(contextBG(), solvers[0], f, 5000, false)
		os.Remove(f)
		first := strings.TrimSpace(strings.SplitN(out, "\n", 2)[0])
		if first != "unsat" {
			fmt.Printf("        conjunct %s: %s\n", first, truncate(c.String(), 300))
		}
	}
	o.Goal = saved
}

func repoDir() string {
	if d := os.Getenv("GOVC_REPO"); d != "" {
		return d
	}
	return "/repo"
}

package main

// Candidate loop invariants from syntax, filtered to the largest inductive subset (Houdini).

import (
	"fmt"
	"go/ast"
	"go/token"
	"go/types"
	"sort"
	"strings"

	"golang.org/x/tools/go/ssa"
)

func candidateInvariants(ctx *Ctx, fn *ssa.Function) []*Clause {
	syn := fn.Syntax()
	if syn == nil {
		return nil
	}
	var body *ast.BlockStmt
	switch n := syn.(type) {
	case *ast.FuncDecl:
		body = n.Body
	case *ast.FuncLit:
		body = n.Body
	}
	if body == nil {
		return nil
	}
	var out []*Clause
	ord := 0
	add := func(loop int, text string, pos token.Pos) {
		f, err := parseFormula(text)
		if err != nil {
			return
		}
		p := ctx.fset.Position(pos)
		out = append(out, &Clause{Kind: "invariant", F: f, Text: text, Loop: loop, Auto: true, File: p.Filename, Line: p.Line, Tags: []string{"auto"}})
	}
	simple := func(e ast.Expr) bool {
		switch x := e.(type) {
		case *ast.Ident:
			return true
		case *ast.SelectorExpr:
			_, ok := x.X.(*ast.Ident)
			return ok
		case *ast.BasicLit:
			return true
		case *ast.CallExpr:
			if id, ok := x.Fun.(*ast.Ident); ok && (id.Name == "len" || id.Name == "int" || id.Name == "uint32" || id.Name == "uint" || id.Name == "uint64") && len(x.Args) == 1 {
				switch a := x.Args[0].(type) {
				case *ast.Ident:
					return true
				case *ast.SelectorExpr:
					_, ok := a.X.(*ast.Ident)
					return ok
				}
			}
		}
		return false
	}
	// variables (parameters and locals) whose type carries a type invariant: candidate "inv(x)" at every loop
	type tv struct{ name, pred string }
	var tvars []tv
	seenTV := map[string]bool{}
	if info := ctx.pkgs[fn.Pkg.Pkg.Path()].TypesInfo; info != nil && len(ctx.typeInv) > 0 {
		for id, obj := range info.Defs {
			v, ok := obj.(*types.Var)
			if !ok || v.IsField() || id.Pos() < syn.Pos() || id.Pos() > syn.End() || id.Name == "_" {
				continue
			}
			if ti, ok := ctx.typeInv[typeKeyFull(v.Type())]; ok && !seenTV[id.Name] && !strings.HasPrefix(ti[1], "?") {
				seenTV[id.Name] = true
				tvars = append(tvars, tv{id.Name, ti[1]})
			}
		}
		sort.Slice(tvars, func(i, j int) bool { return tvars[i].name < tvars[j].name })
	}
	info := ctx.pkgs[fn.Pkg.Pkg.Path()].TypesInfo
	// slice-like variables in scope (parameters and locals) for cursor templates
	var sliceVars []string
	seenSV := map[string]bool{}
	if info != nil {
		for id, obj := range info.Defs {
			v, ok := obj.(*types.Var)
			if !ok || v.IsField() || id.Pos() < syn.Pos() || id.Pos() > syn.End() || id.Name == "_" || seenSV[id.Name] {
				continue
			}
			if isSliceLike(v.Type()) {
				seenSV[id.Name] = true
				sliceVars = append(sliceVars, id.Name)
			}
		}
		sort.Strings(sliceVars)
	}
	// result-free ensures clauses of schema contracts are candidates at every loop (they speak about the parameters only)
	var schemaCands []string
	for _, sch := range ctx.schemasFor(fn) {
		for _, en := range sch.C.Ensures {
			t := strings.TrimSpace(strings.TrimPrefix(strings.TrimSpace(en.Text), "result1 == nil ==>"))
			if !strings.Contains(t, "result") {
				schemaCands = append(schemaCands, t)
			}
		}
	}
	addTV := func(loop int, pos token.Pos) {
		for _, v := range tvars {
			add(loop, fmt.Sprintf("%s(%s)", v.pred, v.name), pos)
		}
		for _, t := range schemaCands {
			add(loop, t, pos)
		}
	}
	// cursor templates: integer variables assigned in the loop body stay within [0, len(s)]
	addCursors := func(loop int, body *ast.BlockStmt, pos token.Pos) {
		if info == nil || body == nil {
			return
		}
		assigned := map[string]types.Type{}
		ast.Inspect(body, func(n ast.Node) bool {
			switch s := n.(type) {
			case *ast.FuncLit:
				return false
			case *ast.AssignStmt:
				for _, l := range s.Lhs {
					if id, ok := l.(*ast.Ident); ok && id.Name != "_" {
						if obj := info.ObjectOf(id); obj != nil && isInt(obj.Type()) {
							assigned[id.Name] = obj.Type()
						}
					}
				}
			case *ast.IncDecStmt:
				if id, ok := s.X.(*ast.Ident); ok {
					if obj := info.ObjectOf(id); obj != nil && isInt(obj.Type()) {
						assigned[id.Name] = obj.Type()
					}
				}
			}
			return true
		})
		var names []string
		for n := range assigned {
			names = append(names, n)
		}
		sort.Strings(names)
		cnt := 0
		for _, n := range names {
			if isSigned(assigned[n]) {
				add(loop, fmt.Sprintf("%s >= 0", n), pos)
			}
			for _, sv := range sliceVars {
				if cnt >= 24 {
					break
				}
				cnt++
				if widthOf(assigned[n]) == 64 && isSigned(assigned[n]) {
					add(loop, fmt.Sprintf("%s <= len(%s)", n, sv), pos)
				} else if widthOf(assigned[n]) == 64 {
					add(loop, fmt.Sprintf("%s <= uint(len(%s))", n, sv), pos)
				} else if widthOf(assigned[n]) == 32 && !isSigned(assigned[n]) {
					add(loop, fmt.Sprintf("uint64(%s) <= uint64(len(%s))", n, sv), pos)
				}
			}
		}
	}
	ast.Inspect(body, func(n ast.Node) bool {
		switch s := n.(type) {
		case *ast.FuncLit:
			return false
		case *ast.ForStmt:
			ord++
			addTV(ord, s.Pos())
			addCursors(ord, s.Body, s.Pos())
			var iv string
			if as, ok := s.Init.(*ast.AssignStmt); ok && len(as.Lhs) == 1 && len(as.Rhs) == 1 {
				if id, ok := as.Lhs[0].(*ast.Ident); ok {
					iv = id.Name
					if simple(as.Rhs[0]) {
						add(ord, fmt.Sprintf("%s >= %s", iv, types.ExprString(as.Rhs[0])), s.Pos())
					}
				}
			}
			if be, ok := s.Cond.(*ast.BinaryExpr); ok {
				if id, ok := be.X.(*ast.Ident); ok && simple(be.Y) {
					switch be.Op {
					case token.LSS:
						add(ord, fmt.Sprintf("%s <= %s", id.Name, types.ExprString(be.Y)), s.Pos())
					case token.LEQ:
						add(ord, fmt.Sprintf("%s <= %s + 1", id.Name, types.ExprString(be.Y)), s.Pos())
					case token.GTR, token.GEQ:
						add(ord, fmt.Sprintf("%s >= %s - 1", id.Name, types.ExprString(be.Y)), s.Pos())
					}
					if iv == "" {
						add(ord, fmt.Sprintf("%s >= 0", id.Name), s.Pos())
					}
				}
			}
		case *ast.RangeStmt:
			ord++
			addTV(ord, s.Pos())
			addCursors(ord, s.Body, s.Pos())
			add(ord, fmt.Sprintf("0 <= idx(%d)", ord), s.Pos())
			if simple(s.X) {
				if tv, ok := ctx.pkgs[fn.Pkg.Pkg.Path()].TypesInfo.Types[s.X]; ok && isSliceLike(tv.Type) {
					add(ord, fmt.Sprintf("idx(%d) <= len(%s)", ord, types.ExprString(s.X)), s.Pos())
				}
			}
		}
		return true
	})
	return out
}

func inferInvariants(ctx *Ctx, fn *ssa.Function, opt *EncOpts, timeoutMs int) {
	key := ctx.funcKey(fn)
	cands := candidateInvariants(ctx, fn)
	if len(cands) == 0 {
		return
	}
	if timeoutMs > 3000 {
		timeoutMs = 3000
	}
	for round := 0; round < 8 && len(cands) > 0; round++ {
		opt.Cand[key] = cands
		res := ctx.verifyFunc(fn, opt)
		if len(res.Fatal) > 0 {
			opt.Cand[key] = nil
			return
		}
		isCand := map[*Clause]bool{}
		for _, c := range cands {
			isCand[c] = true
		}
		sel := map[int]bool{}
		for i, o := range res.Obls {
			if o.Clause != nil && isCand[o.Clause] {
				sel[i] = true
			}
		}
		discharge(res, sel, timeoutMs)
		bad := map[*Clause]bool{}
		for i := range sel {
			if res.Obls[i].Status != "unsat" {
				bad[res.Obls[i].Clause] = true
			}
		}
		if len(bad) == 0 {
			break
		}
		var keep []*Clause
		for _, c := range cands {
			if !bad[c] {
				keep = append(keep, c)
			}
		}
		cands = keep
	}
	opt.Cand[key] = nil
	opt.AutoInv[key] = cands
}

package main

import "golang.org/x/tools/go/ssa"

func inferInvariants(ctx *Ctx, fn *ssa.Function, opt *EncOpts, timeoutMs int) {}

package main

// Calls: builtins, external models, contracts, inlining, havoc with inferred frames.
// Top-level verification of one function against its own contract.

import (
	"fmt"
	"go/ast"
	"go/token"
	"go/types"
	"sort"
	"strconv"
	"strings"

	"golang.org/x/tools/go/ssa"
)

type inEdge struct {
	p    *ssa.BasicBlock
	cond string
	st   State
}

func resultType(sig *types.Signature) types.Type {
	switch sig.Results().Len() {
	case 0:
		return nil
	case 1:
		return sig.Results().At(0).Type()
	}
	return sig.Results()
}

func (e *Enc) call(fr *Frame, b *ssa.BasicBlock, x *ssa.Call, cc *ssa.CallCommon, st *State, reach string, pos token.Pos) Val {
	rt := resultType(cc.Signature())
	var args []Val
	for _, a := range cc.Args {
		args = append(args, e.val(fr, a))
	}
	finish := func(v Val) Val {
		if rt == nil {
			return Val{}
		}
		return v
	}
	if cc.IsInvoke() {
		recv := e.val(fr, cc.Value)
		e.obligAndAssume("nil", e.exprText(pos), reach, not(eq(recv.L[0], c64(0))), pos, safetyTag, "method call on nil interface")
		return finish(e.invoke(fr, cc, recv, args, st, reach, pos, rt))
	}
	switch f := cc.Value.(type) {
	case *ssa.Builtin:
		return finish(e.builtin(fr, f, cc, args, st, reach, pos, rt))
	case *ssa.Function:
		return finish(e.callStatic(fr, f, args, st, reach, pos, rt, cc))
	case *ssa.MakeClosure:
		if fn, ok := f.Fn.(*ssa.Function); ok {
			return finish(e.callHavoc(fr, fn, args, st, reach, pos, rt, "closure "+fn.Name()))
		}
	}
	// dynamic function value of a type governed by a schema contract
	if sch := e.ctx.schemaForType(cc.Value.Type()); sch != nil {
		return finish(e.callBySchema(fr, sch, args, st, reach, pos, rt))
	}
	// dynamic function value
	fv := e.val(fr, cc.Value)
	if len(fv.L) == 1 {
		if fn, ok := e.closures[fv.L[0]]; ok {
			if fn.Blocks != nil && len(fn.FreeVars) == 0 {
				return finish(e.callStatic(fr, fn, args, st, reach, pos, rt, cc))
			}
			return finish(e.callHavoc(fr, fn, args, st, reach, pos, rt, "closure "+fn.Name()))
		}
	}
	e.note("call through function value: all known heap havocked")
	e.havocAll(st)
	r := Val{}
	if rt != nil {
		r = e.havocVal(rt, "dyncall")
		e.wfAssume(st, reach, r)
	}
	return r
}

func (e *Enc) havocAll(st *State) {
	keys := map[string]bool{}
	for k := range st.cur {
		keys[k] = true
	}
	for k := range e.universe {
		keys[k] = true
	}
	var ks []string
	for k := range keys {
		ks = append(ks, k)
	}
	sort.Strings(ks)
	for _, k := range ks {
		e.havocKey(st, k, "")
	}
}

func (e *Enc) havocKey(st *State, k string, ref string) {
	srt, ok := e.keySort[k]
	if !ok {
		return
	}
	if k == "$alloc" {
		old := e.getRaw(st, k)
		n := e.fresh("alloc", bv64)
		e.assume(and(app("bvule", old, n), app("bvult", n, bvLit(bigPow2(63), 64))))
		st.cur[k] = n
		e.writes = append(e.writes, WriteRec{Key: k, Reach: e.curReach})
		return
	}
	if ref != "" && srt.K == 'a' {
		f := e.fresh("hv", *srt.Elem)
		st.cur[k] = e.define(k, srt, sto(e.getRaw(st, k), ref, f))
	} else {
		st.cur[k] = e.fresh("hv_"+k, srt)
	}
	e.writes = append(e.writes, WriteRec{Key: k, Ref: ref, Reach: e.curReach})
}

// havocPatterns havocs (type-wide) every known heap key matching one of the patterns.
func (e *Enc) havocPatterns(st *State, pats map[string]bool) {
	if len(pats) == 0 {
		return
	}
	keys := map[string]bool{}
	for k := range st.cur {
		keys[k] = true
	}
	for k := range e.universe {
		keys[k] = true
	}
	for k := range e.seenKeys {
		keys[k] = true
	}
	var ks []string
	for k := range keys {
		ks = append(ks, k)
	}
	sort.Strings(ks)
	for _, k := range ks {
		for p := range pats {
			if patMatches(p, k) {
				e.havocKey(st, k, "")
				break
			}
		}
	}
}

func patMatches(p, key string) bool {
	if p == "*" {
		return true
	}
	if p == key {
		return true
	}
	if strings.HasPrefix(p, "elem:") {
		t := p[5:]
		return key == "M|"+t || strings.HasPrefix(key, "M|"+t+".") || key == "C|"+t || strings.HasPrefix(key, "C|"+t+".")
	}
	if strings.HasPrefix(p, "cell:") {
		t := p[5:]
		return key == "C|"+t || strings.HasPrefix(key, "C|"+t+".") || key == "M|"+t || strings.HasPrefix(key, "M|"+t+".")
	}
	if len(key) > 2 && (key[0] == 'H' || key[0] == 'M') && key[1] == '|' {
		k := key[2:]
		return k == p || strings.HasPrefix(k, p+".")
	}
	return false
}

func (e *Enc) builtin(fr *Frame, f *ssa.Builtin, cc *ssa.CallCommon, args []Val, st *State, reach string, pos token.Pos, rt types.Type) Val {
	switch f.Name() {
	case "len":
		a := args[0]
		if isSliceLike(a.T) {
			return Val{T: rt, L: []string{a.sLen()}}
		}
		if arr, ok := derefOrSelf(a.T).Underlying().(*types.Array); ok {
			return Val{T: rt, L: []string{c64(arr.Len())}}
		}
		r := e.havocVal(rt, "len")
		e.assume(imp(reach, and(app("bvsle", c64(0), r.L[0]), app("bvsle", r.L[0], c64(maxLen)))))
		return r
	case "cap":
		a := args[0]
		if isSliceLike(a.T) {
			return Val{T: rt, L: []string{a.sCap()}}
		}
		if arr, ok := derefOrSelf(a.T).Underlying().(*types.Array); ok {
			return Val{T: rt, L: []string{c64(arr.Len())}}
		}
		return e.havocVal(rt, "cap")
	case "append":
		return e.appendOp(fr, cc, args, st, reach, pos, rt)
	case "copy":
		return e.copyOp(args, st, reach, rt)
	case "delete", "print", "println", "clear":
		return Val{}
	case "min", "max":
		if len(args) == 2 && isInt(args[0].T) {
			sg := isSigned(args[0].T)
			lt := "bvult"
			if sg {
				lt = "bvslt"
			}
			c := app(lt, args[0].L[0], args[1].L[0])
			if f.Name() == "min" {
				return Val{T: rt, L: []string{ite(c, args[0].L[0], args[1].L[0])}}
			}
			return Val{T: rt, L: []string{ite(c, args[1].L[0], args[0].L[0])}}
		}
	case "recover":
		e.fatalf("recover() in %s", fr.fn.Name())
	}
	e.note("unmodelled builtin %s", f.Name())
	if rt == nil {
		return Val{}
	}
	return e.havocVal(rt, "builtin")
}

// appendOp: append(s, elems...) where the variadic part arrives as a slice (or string).
func (e *Enc) appendOp(fr *Frame, cc *ssa.CallCommon, args []Val, st *State, reach string, pos token.Pos, rt types.Type) Val {
	s, t := args[0], args[1]
	et := rt.Underlying().(*types.Slice).Elem()
	newLen := e.define("applen", bv64, bvadd(s.sLen(), t.sLen()))
	e.assume(imp(reach, app("bvsle", newLen, c64(maxLen))))
	fits := e.define("fits", BoolS(), app("bvsle", newLen, s.sCap()))
	// case A (fits): same region, elements written behind len; case B: fresh region, prefix copied
	fresh := e.newRef(st)
	newCap := e.fresh("appcap", bv64)
	e.assume(imp(reach, and(app("bvsle", newLen, newCap), app("bvsle", newCap, c64(maxLen)))))
	ref := e.define("appref", bv64, ite(fits, s.sRef(), fresh))
	off := e.define("appoff", bv64, ite(fits, s.sOff(), c64(0)))
	cp := e.define("appcap", bv64, ite(fits, s.sCap(), newCap))
	// when nothing is appended to a nil/empty slice the result may stay nil; treated as fresh non-nil otherwise
	srcLeaves := layout(et)
	for _, l := range srcLeaves {
		key := "M|" + typeKey(et) + l.Path
		srcKey := key
		if isString(t.T) {
			srcKey = "M|uint8"
		}
		m := e.get(st, key, l.Sort)
		sm := m
		if srcKey != key {
			sm = e.get(st, srcKey, l.Sort)
		}
		inner := e.fresh("appd", ArrS(l.Sort))
		// content of the result region
		q := fmt.Sprintf("(forall ((j (_ BitVec 64))) (! (and "+
			"(=> (and (bvsle (_ bv0 64) j) (bvslt j %[1]s)) (= (select %[2]s (bvadd %[3]s j)) (select (select %[4]s %[5]s) (bvadd %[6]s j)))) "+
			"(=> (and (bvsle (_ bv0 64) j) (bvslt j %[7]s)) (= (select %[2]s (bvadd %[3]s (bvadd %[1]s j))) (select (select %[8]s %[9]s) (bvadd %[10]s j)))) "+
			"(=> %[11]s (=> (or (bvslt j (bvadd %[6]s %[1]s)) (bvsge j (bvadd %[6]s %[12]s))) (= (select %[2]s j) (select (select %[4]s %[5]s) j)))) "+
			// the same two facts with j as the absolute index of the result region (what E-matching on a goal term select(appd, x) needs)
			"(=> (and (bvsle %[3]s j) (bvslt j (bvadd %[3]s %[1]s))) (= (select %[2]s j) (select (select %[4]s %[5]s) (bvadd %[6]s (bvsub j %[3]s))))) "+
			"(=> (and (bvsle (bvadd %[3]s %[1]s) j) (bvslt j (bvadd %[3]s (bvadd %[1]s %[7]s)))) (= (select %[2]s j) (select (select %[8]s %[9]s) (bvadd %[10]s (bvsub j (bvadd %[3]s %[1]s))))))"+
			") :pattern ((select %[2]s j))))",
			s.sLen(), inner, off, m, s.sRef(), s.sOff(), t.sLen(), sm, t.sRef(), t.sOff(), fits, newLen)
		// instantiate explicitly for the single-element case, which is by far the most common
		e.assume(imp(reach, q))
		// (the quantifier's pattern binds the absolute index, so E-matching never produces the relative instances of the second conjunct)
		if cst, ok := constInt(t.sLen()); ok && cst <= 4 {
			for k := int64(0); k < cst; k++ {
				e.assume(imp(reach, eq(sel(inner, bvadd(off, bvadd(s.sLen(), c64(k)))), sel(sel(sm, t.sRef()), bvadd(t.sOff(), c64(k))))))
			}
		} else {
			for k := int64(0); k < 4; k++ {
				e.assume(imp(and(reach, app("bvslt", c64(k), t.sLen())), eq(sel(inner, bvadd(off, bvadd(s.sLen(), c64(k)))), sel(sel(sm, t.sRef()), bvadd(t.sOff(), c64(k))))))
			}
		}
		e.pendLo, e.pendHi = bvadd(off, s.sLen()), bvadd(off, newLen)
		e.set(st, key, l.Sort, sto(m, ref, inner), ref)
		e.pendLo, e.pendHi = "", ""
	}
	e.allocNote(fr, st, reach, nil, t.sLen(), et)
	return Val{T: rt, L: []string{ref, off, newLen, cp}}
}

func constInt(term string) (int64, bool) {
	var v int64
	var w int
	if n, _ := fmt.Sscanf(term, "(_ bv%d %d)", &v, &w); n == 2 {
		return v, true
	}
	return 0, false
}

func (e *Enc) copyOp(args []Val, st *State, reach string, rt types.Type) Val {
	dst, src := args[0], args[1]
	et := elemT(dst.T)
	n := e.define("copyn", bv64, ite(app("bvslt", dst.sLen(), src.sLen()), dst.sLen(), src.sLen()))
	for _, l := range layout(et) {
		key := "M|" + typeKey(et) + l.Path
		m := e.get(st, key, l.Sort)
		inner := e.fresh("cpd", ArrS(l.Sort))
		q := fmt.Sprintf("(forall ((j (_ BitVec 64))) (! (ite (and (bvsle %[1]s j) (bvslt j (bvadd %[1]s %[2]s))) "+
			"(= (select %[3]s j) (select (select %[4]s %[5]s) (bvadd %[6]s (bvsub j %[1]s)))) "+
			"(= (select %[3]s j) (select (select %[4]s %[7]s) j))) :pattern ((select %[3]s j))))",
			dst.sOff(), n, inner, m, src.sRef(), src.sOff(), dst.sRef())
		e.assume(imp(reach, q))
		e.pendLo, e.pendHi = dst.sOff(), bvadd(dst.sOff(), n)
		e.set(st, key, l.Sort, sto(m, dst.sRef(), inner), dst.sRef())
		e.pendLo, e.pendHi = "", ""
	}
	return Val{T: rt, L: []string{n}}
}

// ---------- static calls ----------

func (e *Enc) callStatic(fr *Frame, fn *ssa.Function, args []Val, st *State, reach string, pos token.Pos, rt types.Type, cc *ssa.CallCommon) Val {
	key := e.ctx.funcKey(fn)
	if m, ok := externals[key]; ok {
		noteExternal(key)
		return m(e, fr, args, st, reach, pos, rt)
	}
	if recv := fn.Signature.Recv(); recv != nil && isPtr(recv.Type()) && len(args) > 0 && args[0].Loc == nil && len(args[0].L) == 1 && e.ctx.isRepoFunc(fn) {
		e.obligAndAssume("nil", "recv:"+e.exprText(pos), reach, not(eq(args[0].L[0], c64(0))), pos, safetyTag, "method call on nil receiver "+shortKey(key))
	}
	c := e.ctx.contractOf(fn)
	if c != nil && !c.Inline {
		return e.callByContract(fr, fn, c, args, st, reach, pos, rt)
	}
	if fn.Blocks != nil && ((c != nil && c.Inline) || e.ctx.autoInline(fn)) && e.depth < 6 && !e.onStack(fr, fn) {
		return e.inlineCall(fr, fn, args, st, reach, rt)
	}
	return e.callHavoc(fr, fn, args, st, reach, pos, rt, key)
}

func (e *Enc) onStack(fr *Frame, fn *ssa.Function) bool {
	for f := fr; f != nil; f = f.parent {
		if f.fn == fn {
			return true
		}
	}
	return false
}

func (e *Enc) callHavoc(fr *Frame, fn *ssa.Function, args []Val, st *State, reach string, pos token.Pos, rt types.Type, what string) Val {
	ws := e.ctx.writeSet(fn)
	e.havocPatterns(st, ws)
	// pointer arguments with structural targets may be written by the callee
	e.havocArgTargets(fn, args, st)
	if e.usedNoContract != nil {
		e.usedNoContract[what] = true
	}
	if rt == nil {
		return Val{}
	}
	r := e.havocVal(rt, "ret_"+fn.Name())
	e.wfAssume(st, reach, r)
	return r
}

func (e *Enc) havocArgTargets(fn *ssa.Function, args []Val, st *State) {
	for _, a := range args {
		if a.Loc != nil {
			v := e.havocVal(a.Loc.T, "argtgt")
			e.store(st, a.Loc, v)
		}
	}
}

func (e *Enc) paramScope(fn *ssa.Function, args []Val, st State, old *State, errs *string, reach string) *Scope {
	names := map[string]Val{}
	for i, p := range fn.Params {
		if i < len(args) {
			v := args[i]
			if v.Loc == nil {
				v = e.coerce(v, p.Type())
			} else {
				v.T = p.Type()
			}
			names[p.Name()] = v
			names[p.Name()+"0"] = v
			names[fmt.Sprintf("p%d", i)] = v
		}
	}
	var pkg *types.Package
	if fn.Pkg != nil {
		pkg = fn.Pkg.Pkg
	}
	return &Scope{e: e, st: st, old: old, names: names, pkg: pkg, err: errs, reach: reach}
}

func bindResults(sc *Scope, fn *ssa.Function, res Val, rt types.Type) {
	if rt == nil {
		return
	}
	sig := fn.Signature
	n := sig.Results().Len()
	if n == 1 {
		sc.names["result"] = res
		sc.names["result0"] = res
		if nm := sig.Results().At(0).Name(); nm != "" && nm != "_" {
			sc.names[nm] = res
		}
		return
	}
	off := 0
	for i := 0; i < n; i++ {
		t := sig.Results().At(i).Type()
		k := len(layout(t))
		v := Val{T: t, L: res.L[off : off+k]}
		off += k
		sc.names[fmt.Sprintf("result%d", i)] = v
		if nm := sig.Results().At(i).Name(); nm != "" && nm != "_" {
			sc.names[nm] = v
		}
	}
}

func (e *Enc) callByContract(fr *Frame, fn *ssa.Function, c *Contract, args []Val, st *State, reach string, pos token.Pos, rt types.Type) Val {
	key := e.ctx.funcKey(fn)
	errs := ""
	pre := e.paramScope(fn, args, st.clone(), nil, &errs, reach)
	for _, r := range c.Requires {
		e.goalMode = true
		t := pre.b(pre.formula(r.F))
		e.goalMode = false
		if errs != "" {
			e.fatalf("%s:%d: binding error: %s in %q", r.File, r.Line, errs, r.Text)
			errs = ""
			continue
		}
		o := e.oblig("pre:"+shortKey(key), clauseSlug(r, 0), reach, t, pos, []string{"pre"}, r.Text, r)
		_ = o
		e.assume(imp(reach, t))
	}
	oldSt := st.clone()
	e.applyAssigns(fn, c, args, st, &oldSt, reach)
	var res Val
	if rt != nil {
		res = e.havocVal(rt, "ret_"+fn.Name())
		e.wfAssume(st, reach, res)
	}
	post := e.paramScope(fn, args, st.clone(), &oldSt, &errs, reach)
	bindResults(post, fn, res, rt)
	for _, en := range append(append([]*Clause{}, c.Ensures...), c.Defines...) {
		if len(en.Tags) > 0 && !e.wantsTags(en.Tags) {
			continue // property-specific postcondition not needed by the function under proof
		}
		if en.Kind == "defines" && e.definesUsed != nil {
			e.definesUsed[shortKey(key)+": "+en.Text] = true
		}
		t := post.b(post.formula(en.F))
		if errs != "" {
			e.fatalf("%s:%d: binding error: %s in %q", en.File, en.Line, errs, en.Text)
			errs = ""
			continue
		}
		e.assume(imp(reach, t))
	}
	if e.usedContracts != nil {
		e.usedContracts[key] = true
	}
	return res
}

// specCallByContract: a contract-specified method called inside a specification. Result and assigned state are havocked on the
// (copied) state; every ensures clause is assumed under the conjunction of the callee's requires clauses.
func (e *Enc) specCallByContract(fr *Frame, fn *ssa.Function, c *Contract, args []Val, st *State, reach string, rt types.Type) Val {
	errs := ""
	pre := e.paramScope(fn, args, st.clone(), nil, &errs, reach)
	var rs []string
	for _, r := range c.Requires {
		t := pre.b(pre.formula(r.F))
		if errs != "" {
			e.fatalf("%s:%d: binding error: %s in %q", r.File, r.Line, errs, r.Text)
			errs = ""
			continue
		}
		rs = append(rs, t)
	}
	guard := and(append([]string{reach}, rs...)...)
	oldSt := st.clone()
	e.applyAssigns(fn, c, args, st, &oldSt, reach)
	var res Val
	if rt != nil {
		res = e.havocVal(rt, "ret_"+fn.Name())
		e.wfAssume(st, reach, res)
	}
	post := e.paramScope(fn, args, st.clone(), &oldSt, &errs, guard)
	bindResults(post, fn, res, rt)
	for _, en := range c.Ensures {
		if len(en.Tags) > 0 && !e.wantsTags(en.Tags) {
			continue
		}
		t := post.b(post.formula(en.F))
		if errs != "" {
			e.fatalf("%s:%d: binding error: %s in %q", en.File, en.Line, errs, en.Text)
			errs = ""
			continue
		}
		e.assume(imp(guard, t))
	}
	if e.usedContracts != nil {
		e.usedContracts[e.ctx.funcKey(fn)] = true
	}
	return res
}

// wantsTags: tagged callee postconditions are assumed only when the function under proof has clauses with one of those tags.
func (e *Enc) wantsTags(tags []string) bool {
	if e.topTags == nil {
		e.topTags = map[string]bool{}
		if c := e.ctx.contractOf(e.topFn); c != nil {
			for _, en := range c.Ensures {
				for _, t := range en.Tags {
					e.topTags[t] = true
				}
			}
			for _, invs := range c.Invs {
				for _, iv := range invs {
					for _, t := range iv.Tags {
						e.topTags[t] = true
					}
				}
			}
			for _, t := range c.Uses {
				e.topTags[t] = true
			}
		}
	}
	for _, t := range tags {
		if e.topTags[t] {
			return true
		}
	}
	return false
}

func shortKey(k string) string {
	if i := strings.LastIndex(k, "/"); i >= 0 {
		return k[i+1:]
	}
	return k
}

type target struct {
	key    string
	sort   Sort
	ref    string
	lo, hi string // element range within region (absolute indices), "" = all
	global bool
	n      int // >0: range has this constant length (hi == lo+n)
}

// targets evaluates an assigns clause into heap targets.
func (e *Enc) targets(c *Contract, sc *Scope) []target {
	var out []target
	if c.Assigns == nil {
		return nil
	}
	for _, tf := range c.Assigns.Targets {
		if tf.Kind != 'e' {
			e.fatalf("%s:%d: bad assigns target", c.File, c.Line)
			continue
		}
		out = append(out, e.target1(tf.Expr, sc, c)...)
	}
	return out
}

func (e *Enc) target1(x ast.Expr, sc *Scope, c *Contract) []target {
	var out []target
	switch n := x.(type) {
	case *ast.ParenExpr:
		return e.target1(n.X, sc, c)
	case *ast.SelectorExpr:
		// ghost(x).f
		if ce, ok := n.X.(*ast.CallExpr); ok {
			if id, ok := ce.Fun.(*ast.Ident); ok && id.Name == "ghost" {
				xv := sc.expr(ce.Args[0])
				ref := xv.L[0]
				if isIface(xv.T) {
					ref = xv.L[1]
				}
				g := ghostFields[n.Sel.Name]
				return []target{{key: "H|ghost." + n.Sel.Name, sort: g.S, ref: ref}}
			}
		}
		xv := sc.expr(n.X)
		if xv.T == nil {
			return nil
		}
		var loc *Loc
		base := derefOrSelf(xv.T)
		if xv.Loc != nil {
			l := *xv.Loc
			l.Path += "." + n.Sel.Name
			loc = &l
			base = xv.Loc.T
		} else if isPtr(xv.T) {
			loc = &Loc{Kind: 'f', Base: "H|" + typeKey(base), Path: "." + n.Sel.Name, Ref: xv.L[0]}
		} else {
			e.fatalf("%s:%d: assigns target %s is not a field of a reference", c.File, c.Line, types.ExprString(x))
			return nil
		}
		stt, ok := base.Underlying().(*types.Struct)
		if !ok {
			return nil
		}
		for i := 0; i < stt.NumFields(); i++ {
			if stt.Field(i).Name() == n.Sel.Name {
				for _, l := range layout(stt.Field(i).Type()) {
					out = append(out, target{key: loc.Base + loc.Path + l.Path, sort: l.Sort, ref: loc.Ref, lo: loc.Idx, hi: elemMark(loc)})
				}
			}
		}
		return out
	case *ast.SliceExpr:
		sv := sc.expr(n.X)
		if sv.Loc != nil {
			sv = e.load(&sc.st, sv.Loc)
		}
		if !isSliceLike(sv.T) {
			e.fatalf("%s:%d: assigns range on non-slice", c.File, c.Line)
			return nil
		}
		lo, hi := "", ""
		if n.Low != nil || n.High != nil {
			l := c64(0)
			h := sv.sLen()
			if n.Low != nil {
				v := sc.at_(sc.expr(n.Low), types.Typ[types.Int])
				l = resize(v.L[0], widthOf(v.T), 64, isSigned(v.T))
			}
			if n.High != nil {
				v := sc.at_(sc.expr(n.High), types.Typ[types.Int])
				h = resize(v.L[0], widthOf(v.T), 64, isSigned(v.T))
			}
			lo, hi = bvadd(sv.sOff(), l), bvadd(sv.sOff(), h)
		}
		cn := 0
		if n.Low != nil && n.High != nil {
			if be, ok := n.High.(*ast.BinaryExpr); ok && be.Op == token.ADD && types.ExprString(be.X) == types.ExprString(n.Low) {
				if lit, ok := be.Y.(*ast.BasicLit); ok && lit.Kind == token.INT {
					if k, err := strconv.Atoi(lit.Value); err == nil && k > 0 && k <= 40 {
						cn = k
					}
				}
			}
		}
		et := elemT(sv.T)
		for _, l := range layout(et) {
			out = append(out, target{key: "M|" + typeKey(et) + l.Path, sort: l.Sort, ref: sv.sRef(), lo: lo, hi: hi, n: cn})
		}
		return out
	case *ast.StarExpr:
		pv := sc.expr(n.X)
		if pv.Loc != nil {
			for _, l := range layout(pv.Loc.T) {
				out = append(out, target{key: pv.Loc.Base + pv.Loc.Path + l.Path, sort: l.Sort, ref: pv.Loc.Ref})
			}
			return out
		}
		loc := e.locOfPtr(pv)
		for _, l := range layout(loc.T) {
			out = append(out, target{key: loc.Base + loc.Path + l.Path, sort: l.Sort, ref: loc.Ref})
		}
		return out
	case *ast.Ident:
		// package-level variable
		if sc.pkg != nil {
			if obj, ok := sc.pkg.Scope().Lookup(n.Name).(*types.Var); ok {
				for _, l := range layout(obj.Type()) {
					out = append(out, target{key: "G|" + obj.Pkg().Name() + "." + obj.Name() + l.Path, sort: l.Sort, global: true})
				}
				return out
			}
		}
	}
	e.fatalf("%s:%d: unsupported assigns target %s", c.File, c.Line, types.ExprString(x))
	return nil
}

func elemMark(l *Loc) string {
	if l.Kind == 'e' {
		return "elem"
	}
	return ""
}

func (e *Enc) applyAssigns(fn *ssa.Function, c *Contract, args []Val, st *State, oldSt *State, reach string) {
	if c.Assigns == nil {
		ws := e.ctx.writeSet(fn)
		e.havocPatterns(st, ws)
		e.havocArgTargets(fn, args, st)
		return
	}
	errs := ""
	sc := e.paramScope(fn, args, oldSt.clone(), nil, &errs, reach)
	tg := e.targets(c, sc)
	if errs != "" {
		e.fatalf("%s:%d: binding error in assigns: %s", c.File, c.Line, errs)
	}
	e.applyTargets(tg, st)
}

func (e *Enc) applyTargets(tg []target, st *State) {
	// allocation may always grow
	e.keySortOf("$alloc", bv64)
	e.get(st, "$alloc", bv64)
	e.havocKey(st, "$alloc", "")
	for _, t := range tg {
		e.keySortOf(t.key, t.sort)
		cur := e.get(st, t.key, t.sort)
		srt := e.keySort[t.key]
		switch {
		case t.global:
			e.havocKey(st, t.key, "")
		case t.key[0] == 'M' && t.hi == "elem":
			// single element of a region
			f := e.fresh("hv", t.sort)
			st.cur[t.key] = e.define(t.key, srt, sto(cur, t.ref, sto(sel(cur, t.ref), t.lo, f)))
			e.writes = append(e.writes, WriteRec{Key: t.key, Ref: t.ref, Lo: t.lo, Hi: bvadd(t.lo, c64(1)), Reach: e.curReach})
		case t.key[0] == 'M' && t.lo != "" && t.n > 0:
			// constant-length range: quantifier-free havoc, one fresh element per position
			inner := sel(cur, t.ref)
			lo := e.define("lo", bv64, t.lo)
			for k := 0; k < t.n; k++ {
				inner = sto(inner, bvadd(lo, c64(int64(k))), e.fresh("hvb", t.sort))
			}
			st.cur[t.key] = e.define(t.key, srt, sto(cur, t.ref, inner))
			e.writes = append(e.writes, WriteRec{Key: t.key, Ref: t.ref, Lo: t.lo, Hi: t.hi, Reach: e.curReach})
		case t.key[0] == 'M' && t.lo != "":
			inner := e.fresh("hvr", ArrS(t.sort))
			e.assume(fmt.Sprintf("(forall ((j (_ BitVec 64))) (! (=> (or (bvslt j %s) (bvsge j %s)) (= (select %s j) (select (select %s %s) j))) :pattern ((select %s j))))", t.lo, t.hi, inner, cur, t.ref, inner))
			st.cur[t.key] = e.define(t.key, srt, sto(cur, t.ref, inner))
			e.writes = append(e.writes, WriteRec{Key: t.key, Ref: t.ref, Lo: t.lo, Hi: t.hi, Reach: e.curReach})
		default:
			e.havocKey(st, t.key, t.ref)
		}
	}
}

// ---------- inlining ----------

func (e *Enc) inlineCall(fr *Frame, fn *ssa.Function, args []Val, st *State, reach string, rt types.Type) Val {
	sub := e.newFrame(fn, fr)
	for i, p := range fn.Params {
		if i < len(args) {
			v := args[i]
			if v.Loc == nil {
				v = e.coerce(v, p.Type())
			}
			sub.env[p] = v
		}
	}
	e.mute++
	e.depth++
	e.encodeBody(sub, *st, reach)
	e.depth--
	e.mute--
	if e.usedInline != nil {
		e.usedInline[e.ctx.funcKey(fn)] = true
	}
	var ins []inEdge
	var res Val
	first := true
	for i := len(sub.rets) - 1; i >= 0; i-- {
		r := sub.rets[i]
		if r.reach == "false" {
			continue
		}
		ins = append(ins, inEdge{nil, r.reach, r.st})
		if rt != nil {
			var v Val
			if len(r.vals) == 1 {
				v = e.coerce(r.vals[0], rt)
			} else {
				v = Val{T: rt}
				for _, x := range r.vals {
					if x.Loc != nil {
						e.note("structural pointer returned in tuple (degraded)")
						x = e.havocVal(x.T, "retopq")
					}
					v.L = append(v.L, x.L...)
				}
			}
			if first {
				res, first = v, false
			} else {
				res = e.iteVal(r.reach, v, res, rt)
			}
		}
	}
	if len(ins) == 0 {
		// callee never returns (always panics): the rest is unreachable
		e.assume(not(reach))
		if rt != nil {
			return e.havocVal(rt, "noret")
		}
		return Val{}
	}
	var rs []string
	for _, in := range ins {
		rs = append(rs, in.cond)
	}
	e.assume(imp(reach, or(rs...)))
	*st = e.mergeStates(ins)
	if rt != nil {
		res = e.nameVal(res, "inl_"+fn.Name())
	}
	return res
}

func (e *Enc) mergeStates(ins []inEdge) State {
	st := ins[0].st.clone()
	if len(ins) == 1 {
		return st
	}
	keys := map[string]bool{}
	for _, in := range ins {
		for k := range in.st.cur {
			keys[k] = true
		}
	}
	var ks []string
	for k := range keys {
		ks = append(ks, k)
	}
	sort.Strings(ks)
	for _, k := range ks {
		same := true
		first := ""
		for i, in := range ins {
			s, ok := in.st.cur[k]
			if !ok {
				s = e.getRaw(&in.st, k)
			}
			if i == 0 {
				first = s
			} else if s != first {
				same = false
			}
		}
		if same {
			st.cur[k] = first
			continue
		}
		term := ""
		for i := len(ins) - 1; i >= 0; i-- {
			in := ins[i]
			s, ok := in.st.cur[k]
			if !ok {
				s = e.getRaw(&in.st, k)
			}
			if term == "" {
				term = s
			} else {
				term = ite(in.cond, s, term)
			}
		}
		st.cur[k] = e.define(k, e.keySort[k], term)
	}
	return st
}

// ---------- interface calls ----------

func (e *Enc) invoke(fr *Frame, cc *ssa.CallCommon, recv Val, args []Val, st *State, reach string, pos token.Pos, rt types.Type) Val {
	it := cc.Value.Type()
	name := typeKeyFull(it) + "." + cc.Method.Name()
	if m, ok := externals[name]; ok {
		noteExternal(name)
		return m(e, fr, append([]Val{recv}, args...), st, reach, pos, rt)
	}
	// statically known dynamic type?
	if id, ok := constInt(recv.L[0]); ok && id != 0 {
		if t := e.ctx.typeByID(int(id)); t != nil {
			if fn := e.ctx.prog.LookupMethod(t, cc.Method.Pkg(), cc.Method.Name()); fn != nil {
				rv := Val{T: t, L: []string{recv.L[1]}}
				if bx, found := e.boxed[recv.L[1]]; found {
					rv = bx
				}
				return e.callStatic(fr, fn, append([]Val{rv}, args...), st, reach, pos, rt, cc)
			}
		}
	}
	if e.ctx.isAbsMethod(cc.Method) {
		return e.absCall(recv, cc.Method, st, reach, true)
	}
	if sch := e.ctx.methodSchema(cc.Method, it); sch != nil {
		return e.callBySchema(fr, sch, append([]Val{recv}, args...), st, reach, pos, rt)
	}
	// devirtualisation directive: the interface is assumed to hold one concrete type; that assumption is an obligation here
	if ct, ok := e.ctx.devirtT[typeKeyFull(it)]; ok {
		if fn := e.ctx.prog.LookupMethod(ct, cc.Method.Pkg(), cc.Method.Name()); fn != nil {
			e.obligAndAssume("devirt", e.exprText(pos), reach, eq(recv.L[0], e.typeID(ct)), pos, safetyTag, "interface value is not the devirtualised type "+typeKey(ct))
			rv := Val{T: ct, L: []string{recv.L[1]}}
			e.devirtUsed[typeKey(it)+" = "+typeKey(ct)] = true
			return e.callStatic(fr, fn, append([]Val{rv}, args...), st, reach, pos, rt, cc)
		}
	}
	// CHA: union of the write sets of all implementations in the loaded packages
	ws := e.ctx.ifaceWriteSet(it, cc.Method)
	e.havocPatterns(st, ws)
	for _, a := range args {
		if a.Loc != nil {
			e.store(st, a.Loc, e.havocVal(a.Loc.T, "argtgt"))
		}
	}
	if e.usedNoContract != nil {
		e.usedNoContract["invoke "+name] = true
	}
	if rt == nil {
		return Val{}
	}
	r := e.havocVal(rt, "inv_"+cc.Method.Name())
	e.wfAssume(st, reach, r)
	return r
}

func typeKeyFull(t types.Type) string {
	return canonBasic(types.TypeString(t, func(p *types.Package) string { return p.Path() }))
}

// pureMethod evaluates a Go method call inside a specification by inlining its body on a copy of the state.
func (sc *Scope) pureMethod(recv Val, name string, args []Val) Val {
	e := sc.e
	t := recv.T
	if recv.Loc != nil {
		t = types.NewPointer(recv.Loc.T)
	}
	var fn *ssa.Function
	for _, tt := range []types.Type{t, types.NewPointer(t)} {
		ms := e.ctx.prog.MethodSets.MethodSet(tt)
		for i := 0; i < ms.Len(); i++ {
			if ms.At(i).Obj().Name() == name {
				fn = e.ctx.prog.MethodValue(ms.At(i))
			}
		}
		if fn != nil {
			break
		}
	}
	if fn == nil || fn.Blocks == nil {
		return sc.fail("no method %s on %s usable in specs", name, typeKey(t))
	}
	c := e.ctx.contractOf(fn)
	byContract := c != nil && !c.Inline && len(c.Ensures) > 0 && (c.Pure || (c.Assigns != nil && len(c.Assigns.Targets) == 0))
	if c != nil && !c.Pure && !c.Inline && !byContract {
		return sc.fail("method %s used in a spec must be marked pure or inline, or have a contract with 'assigns nothing'", name)
	}
	st := sc.st.clone()
	rt := resultType(fn.Signature)
	all := append([]Val{recv}, args...)
	for i := range all {
		if all[i].C != nil && i < len(fn.Params) {
			all[i] = sc.at_(all[i], fn.Params[i].Type())
		}
	}
	r := sc.reach
	if r == "" {
		r = "true"
	}
	if sc.bound > 0 {
		r = "true" // under a quantifier the guard may mention bound variables; inlined bodies there must be assumption-free
	}
	if byContract {
		// a side-effect free method with a contract (typically one with loops): its postconditions, on a copy of the state.
		// The callee's preconditions are NOT assumed here: its postconditions are taken only under them.
		return e.specCallByContract(sc.fr, fn, c, all, &st, r, rt)
	}
	return e.inlineCall(sc.fr, fn, all, &st, r, rt)
}

// ---------- verifying one function against its contract ----------

type FuncResult struct {
	Key      string
	Obls     []*Obl
	Notes    []string
	Fatal    []string
	Script   []string
	Decl     []string
	Used     []string // contracts relied on
	NoContr  []string // callees handled by havoc+inferred frame
	Inlined  []string
	Defines  []string
	AbsUsed  []string
	Devirt   []string
	Loops    int
	Instrs   int
	RetReach []string
	Keys     map[string]bool
	ParamVals []Val
}

func (ctx *Ctx) verifyFunc(fn *ssa.Function, opt *EncOpts) *FuncResult {
	// pass 1: discovery of the heap-key universe
	e1 := newEnc(ctx)
	e1.discover = true
	e1.opt = opt
	e1.run(fn)
	e := newEnc(ctx)
	e.universe = e1.seenKeys
	e.keySort = e1.keySort
	e.opt = opt
	e.run(fn)
	res := &FuncResult{Key: ctx.funcKey(fn), Obls: e.obls, Fatal: e.fatal, Script: e.body, Decl: e.decl, RetReach: e.retReach, Keys: e.seenKeys, ParamVals: e.paramVals}
	for n := range e.notes {
		res.Notes = append(res.Notes, n)
	}
	sort.Strings(res.Notes)
	res.Used = sortedKeys(e.usedContracts)
	res.NoContr = sortedKeys(e.usedNoContract)
	res.Inlined = sortedKeys(e.usedInline)
	res.Defines = sortedKeys(e.definesUsed)
	res.AbsUsed = sortedKeys(e.absUsed)
	res.Devirt = sortedKeys(e.devirtUsed)
	for _, b := range fn.Blocks {
		res.Instrs += len(b.Instrs)
	}
	return res
}

func sortedAxiomPkgs(cs *ContractSet) []string {
	var ks []string
	for k := range cs.Axioms {
		ks = append(ks, k)
	}
	sort.Strings(ks)
	return ks
}

func sortedKeys(m map[string]bool) []string {
	var ks []string
	for k := range m {
		ks = append(ks, k)
	}
	sort.Strings(ks)
	return ks
}

func (e *Enc) run(fn *ssa.Function) {
	e.topFn = fn
	e.usedContracts = map[string]bool{}
	e.usedNoContract = map[string]bool{}
	e.usedInline = map[string]bool{}
	e.absUsed = map[string]bool{}
	e.definesUsed = map[string]bool{}
	e.devirtUsed = map[string]bool{}
	e.closureBinds = map[string][]Val{}
	fr := e.newFrame(fn, nil)
	fr.emit = true
	st := State{cur: map[string]string{}}
	if e.universe != nil {
		var ks []string
		for k := range e.universe {
			ks = append(ks, k)
		}
		sort.Strings(ks)
		for _, k := range ks {
			if _, ok := e.keySort[k]; ok {
				n := symSafe(k) + "@0"
				e.declare(n, e.keySort[k])
				st.cur[k] = n
			}
		}
	}
	a0 := e.get(&st, "$alloc", bv64)
	e.assume(and(app("bvult", c64(16), a0), app("bvult", a0, bvLit(bigPow2(62), 64))))
	for _, p := range fn.Params {
		v := e.havocVal(p.Type(), "p_"+p.Name())
		fr.env[p] = v
		e.paramVals = append(e.paramVals, v)
		e.wfAssume(&st, "true", v)
	}
	if recv := fn.Signature.Recv(); recv != nil && isPtr(recv.Type()) && len(fn.Params) > 0 {
		e.assume(not(eq(fr.env[fn.Params[0]].L[0], c64(0))))
	}
	errs := ""
	// package-level axioms (globals that are initialised once and never stored to again; checked at load time)
	for _, pp := range sortedAxiomPkgs(e.ctx.cs) {
		pkg := e.ctx.typesPkg(pp)
		for _, ax := range e.ctx.cs.Axioms[pp] {
			sc := &Scope{e: e, st: st.clone(), names: map[string]Val{}, pkg: pkg, err: &errs, reach: "true"}
			t := sc.b(sc.formula(ax.F))
			if errs != "" {
				e.fatalf("%s:%d: binding error: %s in axiom %q", ax.File, ax.Line, errs, ax.Text)
				errs = ""
				continue
			}
			e.assume(t)
		}
	}
	c := fr.contract
	if c != nil {
		var args []Val
		for _, p := range fn.Params {
			args = append(args, fr.env[p])
		}
		sc := e.paramScope(fn, args, st.clone(), nil, &errs, "true")
		for _, r := range c.Assumes {
			t := sc.b(sc.formula(r.F))
			if errs != "" {
				e.fatalf("%s:%d: binding error: %s in %q", r.File, r.Line, errs, r.Text)
				errs = ""
				continue
			}
			e.assume(t)
			e.note("assumed at entry of %s: %s", shortKey(e.ctx.funcKey(fn)), r.Text)
		}
		for _, r := range c.Requires {
			t := sc.b(sc.formula(r.F))
			if errs != "" {
				e.fatalf("%s:%d: binding error: %s in %q", r.File, r.Line, errs, r.Text)
				errs = ""
				continue
			}
			e.assume(t)
		}
	}
	if fn.Blocks == nil {
		e.fatalf("function %s has no body", fn.Name())
		return
	}
	// allocation bound (C04): in functions reading from a slice reader, every make() is linear in the bytes available at entry
	for _, p := range fn.Params {
		if typeKeyFull(p.Type()) == "github.com/Eyevinn/mp4ff/bits.SliceReader" {
			pv := fr.env[p]
			hl, okl := e.heapSymIf(&st, "H|bits.FixedSliceReader.len")
			hp, okp := e.heapSymIf(&st, "H|bits.FixedSliceReader.pos")
			if okl && okp {
				rem0 := e.define("rem0", bv64, app("bvsub", sel(hl, pv.L[1]), sel(hp, pv.L[1])))
				e.allocHook = func(fr2 *Frame, st2 *State, reach string, x ssa.Instruction, ln string, et types.Type) {
					if x == nil || fr2 != fr {
						return
					}
					sz := sizes.Sizeof(et)
					if sz <= 0 {
						sz = 1
					}
					bytes := app("bvmul", ln, c64(sz))
					bound := bvadd(app("bvmul", c64(64), rem0), c64(1<<20))
					e.oblig("alloc", e.exprText(x.Pos()), reach, and(app("bvsle", ln, c64(1<<40)), app("bvsle", bytes, bound)), x.Pos(), []string{"alloc"}, "allocation bounded by 64 x available input bytes + 1 MiB", nil)
				}
			}
			break
		}
	}
	e.encodeBody(fr, st, "true")
	e.allocHook = nil
	for _, r := range fr.rets {
		e.retReach = append(e.retReach, r.reach)
	}
	if c == nil {
		return
	}
	var args []Val
	for _, p := range fn.Params {
		args = append(args, fr.env[p])
	}
	rt := resultType(fn.Signature)
	for ri, r := range fr.rets {
		if r.reach == "false" {
			continue
		}
		sc := e.paramScope(fn, args, r.st.clone(), &fr.entrySt, &errs, r.reach)
		sc.fr = nil
		if rt != nil {
			var res Val
			if len(r.vals) == 1 {
				res = r.vals[0]
				if res.Loc == nil {
					res = e.coerce(res, rt)
				}
			} else {
				res = Val{T: rt}
				for _, x := range r.vals {
					if x.Loc != nil {
						x = e.havocVal(x.T, "retopq")
					}
					res.L = append(res.L, x.L...)
				}
			}
			bindResults(sc, fn, res, rt)
		}
		for i, en := range c.Ensures {
			e.goalMode = true
			t := sc.b(sc.formula(en.F))
			e.goalMode = false
			if errs != "" {
				e.fatalf("%s:%d: binding error: %s in %q", en.File, en.Line, errs, en.Text)
				errs = ""
				continue
			}
			what := fmt.Sprintf("%d:%s", i, clauseSlug(en, i))
			if len(fr.rets) > 1 {
				what += fmt.Sprintf("/ret%d", ri)
			}
			e.oblig("post", what, r.reach, t, r.pos, append([]string{"post"}, en.Tags...), en.Text, en)
		}
	}
	if c.Assigns != nil {
		e.frameObligations(fr, c, args)
	}
}

func bigPow2(n uint) *bigInt { return new(bigInt).Lsh(bigOne, n) }

// frameObligations: every concrete write performed by the body (stores, modelled externals, callee frames) lies inside
// the declared assigns clause or hits an object allocated by this call.
func (e *Enc) frameObligations(fr *Frame, c *Contract, args []Val) {
	errs := ""
	sc := e.paramScope(fr.fn, args, fr.entrySt.clone(), nil, &errs, "true")
	tg := e.targets(c, sc)
	byKey := map[string][]target{}
	for _, t := range tg {
		byKey[t.key] = append(byKey[t.key], t)
	}
	a0 := e.getRaw(&fr.entrySt, "$alloc")
	seen := map[string]bool{}
	for _, w := range e.writes {
		if w.Abstract || w.Key == "$alloc" || w.Reach == "false" {
			continue
		}
		sig := w.Key + "|" + w.Ref + "|" + w.Lo + "|" + w.Hi + "|" + w.Reach
		if seen[sig] {
			continue
		}
		seen[sig] = true
		var allowed []string
		if w.Ref != "" && w.Key[0] != 'G' {
			allowed = append(allowed, app("bvuge", w.Ref, a0))
		}
		if w.Key[0] == 'M' && w.Lo != "" && w.Hi != "" {
			// a write of the empty range [lo, lo) changes nothing (e.g. append of an empty slice)
			allowed = append(allowed, eq(w.Lo, w.Hi))
		}
		for _, t := range byKey[w.Key] {
			switch {
			case t.global:
				allowed = append(allowed, "true")
			case w.Ref == "":
				// type-wide write: never inside an object-level frame
			case w.Key[0] == 'M':
				same := eq(w.Ref, t.ref)
				if t.lo == "" {
					allowed = append(allowed, same)
				} else if w.Lo != "" {
					hi := t.hi
					if hi == "elem" {
						hi = bvadd(t.lo, c64(1))
					}
					allowed = append(allowed, and(same, app("bvsle", t.lo, w.Lo), app("bvsle", w.Hi, hi), app("bvsle", w.Lo, w.Hi)))
				}
			default:
				allowed = append(allowed, eq(w.Ref, t.ref))
			}
		}
		e.oblig("frame", w.Key, w.Reach, or(allowed...), token.NoPos, []string{"frame"}, "assigns "+c.Assigns.Text, c.Assigns)
	}
}

func (e *Enc) frameObligationOld(fr *Frame, c *Contract, args []Val, r retInfo, ri int) {
	errs := ""
	sc := e.paramScope(fr.fn, args, fr.entrySt.clone(), nil, &errs, "true")
	tg := e.targets(c, sc)
	byKey := map[string][]target{}
	for _, t := range tg {
		byKey[t.key] = append(byKey[t.key], t)
	}
	seen := map[string]bool{}
	var keys []string
	for _, w := range e.writes {
		if !seen[w.Key] {
			seen[w.Key] = true
			keys = append(keys, w.Key)
		}
	}
	sort.Strings(keys)
	a0 := e.getRaw(&fr.entrySt, "$alloc")
	for _, k := range keys {
		if k == "$alloc" {
			continue
		}
		ent := fr.entrySt
		init := e.getRaw(&ent, k)
		rs := r.st
		fin := e.getRaw(&rs, k)
		if init == fin {
			continue
		}
		srt := e.keySort[k]
		var cond string
		switch k[0] {
		case 'G':
			if len(byKey[k]) > 0 {
				continue
			}
			cond = eq(init, fin)
		case 'H', 'C':
			rr := e.fresh("fr_r", bv64)
			hyp := []string{app("bvult", rr, a0)}
			for _, t := range byKey[k] {
				hyp = append(hyp, not(eq(rr, t.ref)))
			}
			cond = imp(and(hyp...), eq(sel(init, rr), sel(fin, rr)))
		case 'M':
			rr := e.fresh("fr_r", bv64)
			jj := e.fresh("fr_j", bv64)
			hyp := []string{app("bvult", rr, a0)}
			for _, t := range byKey[k] {
				if t.hi == "elem" {
					hyp = append(hyp, not(and(eq(rr, t.ref), eq(jj, t.lo))))
				} else if t.lo != "" {
					hyp = append(hyp, not(and(eq(rr, t.ref), app("bvsle", t.lo, jj), app("bvslt", jj, t.hi))))
				} else {
					hyp = append(hyp, not(eq(rr, t.ref)))
				}
			}
			cond = imp(and(hyp...), eq(sel(sel(init, rr), jj), sel(sel(fin, rr), jj)))
		default:
			continue
		}
		_ = srt
		what := k
		if len(fr.rets) > 1 {
			what += fmt.Sprintf("/ret%d", ri)
		}
		e.oblig("frame", what, r.reach, cond, r.pos, []string{"frame"}, "assigns "+c.Assigns.Text, c.Assigns)
	}
}

// callBySchema: call through a function value whose type is governed by a schema (e.g. the box decoder registry):
// the schema's requires are obligations here, everything reachable is havocked, the schema's ensures are assumed.
func (e *Enc) callBySchema(fr *Frame, sch *Schema, args []Val, st *State, reach string, pos token.Pos, rt types.Type) Val {
	errs := ""
	names := map[string]Val{}
	for i, a := range args {
		names[fmt.Sprintf("p%d", i)] = a
	}
	pkg := e.ctx.typesPkg(sch.Pkg)
	pre := &Scope{e: e, st: st.clone(), names: names, pkg: pkg, err: &errs, reach: reach}
	reqs := sch.C.Requires
	if len(sch.CallReq) > 0 {
		reqs = sch.CallReq
	}
	for _, r := range reqs {
		e.goalMode = true
		t := pre.b(pre.formula(r.F))
		e.goalMode = false
		if errs != "" {
			e.fatalf("%s:%d: binding error: %s in %q", r.File, r.Line, errs, r.Text)
			errs = ""
			continue
		}
		e.oblig("pre:schema:"+sch.Name, clauseSlug(r, 0), reach, t, pos, []string{"pre"}, r.Text, r)
		e.assume(imp(reach, t))
	}
	oldSt := st.clone()
	if sch.C.Assigns != nil {
		asc := &Scope{e: e, st: oldSt.clone(), names: names, pkg: pkg, err: &errs, reach: reach}
		e.applyTargets(e.targets(sch.C, asc), st)
		if errs != "" {
			e.fatalf("%s:%d: binding error in schema assigns: %s", sch.C.File, sch.C.Line, errs)
			errs = ""
		}
	} else {
		e.havocAll(st)
	}
	var res Val
	if rt != nil {
		res = e.havocVal(rt, "ret_"+sch.Name)
		e.wfAssume(st, reach, res)
	}
	post := &Scope{e: e, st: st.clone(), old: &oldSt, names: map[string]Val{}, pkg: pkg, err: &errs, reach: reach}
	for k, v := range names {
		post.names[k] = v
	}
	if rt != nil {
		if tup, ok := rt.(*types.Tuple); ok {
			off := 0
			for i := 0; i < tup.Len(); i++ {
				k := len(layout(tup.At(i).Type()))
				post.names[fmt.Sprintf("result%d", i)] = Val{T: tup.At(i).Type(), L: res.L[off : off+k]}
				off += k
			}
		} else {
			post.names["result"] = res
			post.names["result0"] = res
		}
	}
	for _, en := range append(append([]*Clause{}, sch.C.Ensures...), sch.C.Defines...) {
		if len(en.Tags) > 0 && !e.wantsTags(en.Tags) {
			continue
		}
		if en.Kind == "defines" && e.definesUsed != nil {
			e.definesUsed["schema "+sch.Name+": "+en.Text] = true
		}
		t := post.b(post.formula(en.F))
		if errs != "" {
			e.fatalf("%s:%d: binding error: %s in %q", en.File, en.Line, errs, en.Text)
			errs = ""
			continue
		}
		e.assume(imp(reach, t))
	}
	if e.usedContracts != nil {
		e.usedContracts["schema "+sch.Name] = true
	}
	return res
}

func (e *Enc) heapSymIf(st *State, key string) (string, bool) {
	if _, ok := e.keySort[key]; !ok {
		if e.universe != nil && !e.universe[key] {
			return "", false
		}
		e.keySortOf(key, bv64)
	}
	return e.get(st, key, bv64), true
}

package main

// Evaluation of contract expressions to SMT terms.

import (
	"fmt"
	"go/ast"
	"go/constant"
	"go/token"
	"go/types"
	"math/big"
	"strconv"
	"strings"

	"golang.org/x/tools/go/ssa"
)

type Scope struct {
	e     *Enc
	fr    *Frame
	st    State
	old   *State
	names map[string]Val
	at    *ssa.BasicBlock
	atEnd bool
	pkg   *types.Package
	err   *string
	depth int
	reach string // guard for well-formedness facts of loaded values ("" = true)
	bound int    // >0 inside a quantifier body
}

func (sc *Scope) fail(f string, a ...interface{}) Val {
	msg := fmt.Sprintf(f, a...)
	if sc.err != nil && *sc.err == "" {
		*sc.err = msg
	}
	return Val{T: types.Typ[types.Bool], L: []string{"false"}}
}

// guarded: a scope whose side assumptions hold only when g does (on top of the scope's own reachability guard).
func (sc *Scope) guarded(g string) *Scope {
	c := *sc
	r := sc.reach
	if r == "" {
		r = "true"
	}
	c.reach = and(r, g)
	return &c
}

func (sc *Scope) child() *Scope {
	c := *sc
	c.names = map[string]Val{}
	for k, v := range sc.names {
		c.names[k] = v
	}
	return &c
}

func boolVal(s string) Val { return Val{T: types.Typ[types.Bool], L: []string{s}} }

func (sc *Scope) formula(f *Formula) Val {
	switch f.Kind {
	case 'i':
		l := sc.formula(f.L)
		r := sc.guarded(sc.b(l)).formula(f.R)
		return boolVal(imp(sc.b(l), sc.b(r)))
	case 'q':
		c := sc.child()
		c.bound++
		var binders []string
		var guards []string
		for _, qv := range f.Vars {
			t := sc.e.ctx.parseType(sc.pkg, qv.Type)
			if t == nil {
				return sc.fail("unknown type %q in quantifier", qv.Type)
			}
			ls := layout(t)
			if len(ls) != 1 {
				return sc.fail("quantified variable %s must be scalar", qv.Name)
			}
			sc.e.n++
			sym := fmt.Sprintf("q!%s!%d", qv.Name, sc.e.n)
			binders = append(binders, fmt.Sprintf("(%s %s)", sym, ls[0].Sort))
			c.names[qv.Name] = Val{T: t, L: []string{sym}}
		}
		_ = guards
		sc.e.noDefine++
		body := c.formula(f.Body)
		sc.e.noDefine--
		bs := sc.b(body)
		for _, qv := range f.Vars {
			v := c.names[qv.Name]
			if len(v.L) == 1 && widthOf(v.T) == 64 && isInt(v.T) && !sc.e.goalMode {
				bs = normaliseQuantBody(bs, v.L[0])
			}
		}
		return boolVal(fmt.Sprintf("(%s (%s) %s)", f.Q, strings.Join(binders, " "), bs))
	}
	c := sc
	if len(f.Subs) > 0 {
		c = sc.child()
		for name, sub := range f.Subs {
			c.names[name] = sc.formula(sub)
		}
	}
	return c.expr(f.Expr)
}

func (sc *Scope) b(v Val) string {
	if len(v.L) != 1 || !isBool(v.T) {
		sc.fail("boolean expected, got %s", typeKey(v.T))
		return "false"
	}
	return v.L[0]
}

func untyped(c *big.Int) Val { return Val{T: types.Typ[types.UntypedInt], C: c} }

// materialise an untyped constant at a type
func (sc *Scope) at_(v Val, t types.Type) Val {
	if v.C == nil {
		return v
	}
	if !isInt(t) {
		t = types.Typ[types.Int]
	}
	return Val{T: t, L: []string{bvLit(v.C, widthOf(t))}}
}

func (sc *Scope) expr(x ast.Expr) Val {
	e := sc.e
	switch n := x.(type) {
	case *ast.ParenExpr:
		return sc.expr(n.X)
	case *ast.BasicLit:
		switch n.Kind {
		case token.INT, token.CHAR:
			cv := constant.MakeFromLiteral(n.Value, n.Kind, 0)
			bi, _ := new(big.Int).SetString(constant.ToInt(cv).ExactString(), 10)
			return untyped(bi)
		case token.STRING:
			s, _ := strconv.Unquote(n.Value)
			return e.strLit(s, types.Typ[types.String])
		}
		return sc.fail("unsupported literal %s", n.Value)
	case *ast.Ident:
		return sc.ident(n.Name)
	case *ast.UnaryExpr:
		v := sc.expr(n.X)
		switch n.Op {
		case token.NOT:
			return boolVal(not(sc.b(v)))
		case token.SUB:
			if v.C != nil {
				return untyped(new(big.Int).Neg(v.C))
			}
			return Val{T: v.T, L: []string{app("bvneg", v.L[0])}}
		case token.XOR:
			if v.C != nil {
				return untyped(new(big.Int).Not(v.C))
			}
			return Val{T: v.T, L: []string{app("bvnot", v.L[0])}}
		case token.AND:
			return sc.fail("address-of not supported in specs")
		}
	case *ast.BinaryExpr:
		return sc.binary(n)
	case *ast.SelectorExpr:
		return sc.selector(n)
	case *ast.IndexExpr:
		a := sc.expr(n.X)
		i := sc.expr(n.Index)
		i = sc.at_(i, types.Typ[types.Int])
		if len(i.L) != 1 {
			return sc.fail("bad index")
		}
		i64 := resize(i.L[0], widthOf(i.T), 64, isSigned(i.T))
		if a.T == nil {
			return sc.fail("bad indexed value")
		}
		if a.Loc != nil {
			a = e.load(&sc.st, a.Loc)
		}
		switch u := a.T.Underlying().(type) {
		case *types.Slice:
			loc := &Loc{Kind: 'e', Base: "M|" + typeKey(u.Elem()), Ref: a.sRef(), Idx: bvadd(a.sOff(), i64), T: u.Elem()}
			return sc.loadSpec(loc)
		case *types.Basic:
			if isString(a.T) {
				return Val{T: types.Typ[types.Uint8], L: []string{sel(sel(e.get(&sc.st, "M|uint8", BV(8)), a.sRef()), bvadd(a.sOff(), i64))}}
			}
		case *types.Array:
			ls := layout(a.T)
			if len(ls) == 1 && ls[0].Sort.K == 'a' {
				return Val{T: u.Elem(), L: []string{sel(a.L[0], i64)}}
			}
		case *types.Pointer:
			if arr, ok := u.Elem().Underlying().(*types.Array); ok {
				loc := &Loc{Kind: 'e', Base: "M|" + typeKey(arr.Elem()), Ref: a.L[0], Idx: i64, T: arr.Elem()}
				return sc.loadSpec(loc)
			}
		}
		return sc.fail("cannot index %s", typeKey(a.T))
	case *ast.SliceExpr:
		a := sc.expr(n.X)
		if a.Loc != nil {
			a = e.load(&sc.st, a.Loc)
		}
		if !isSliceLike(a.T) {
			return sc.fail("cannot slice %s", typeKey(a.T))
		}
		lo := c64(0)
		hi := a.sLen()
		if n.Low != nil {
			v := sc.at_(sc.expr(n.Low), types.Typ[types.Int])
			lo = resize(v.L[0], widthOf(v.T), 64, isSigned(v.T))
		}
		if n.High != nil {
			v := sc.at_(sc.expr(n.High), types.Typ[types.Int])
			hi = resize(v.L[0], widthOf(v.T), 64, isSigned(v.T))
		}
		if isString(a.T) {
			return Val{T: a.T, L: []string{a.sRef(), bvadd(a.sOff(), lo), app("bvsub", hi, lo)}}
		}
		return Val{T: a.T, L: []string{a.sRef(), bvadd(a.sOff(), lo), app("bvsub", hi, lo), app("bvsub", a.sCap(), lo)}}
	case *ast.CallExpr:
		return sc.call(n)
	case *ast.TypeAssertExpr:
		v := sc.expr(n.X)
		t := e.ctx.parseType(sc.pkg, types.ExprString(n.Type))
		if t == nil || !isIface(v.T) {
			return sc.fail("bad type assertion in spec")
		}
		if len(layout(t)) == 1 {
			return Val{T: t, L: []string{v.L[1]}}
		}
		return sc.fail("type assertion to non-reference type in spec")
	case *ast.StarExpr:
		v := sc.expr(n.X)
		if v.Loc != nil {
			return sc.loadSpec(v.Loc)
		}
		if isPtr(v.T) {
			return e.loadPtr(&sc.st, v)
		}
		return sc.fail("cannot dereference %s", typeKey(v.T))
	}
	return sc.fail("unsupported spec expression %T", x)
}

func (sc *Scope) loadSpec(loc *Loc) Val {
	v := sc.e.load(&sc.st, loc)
	sc.wf(v)
	return v
}

// wf assumes the Go-level well-formedness of a value read from a program state (guarded by the reachability of that state).
func (sc *Scope) wf(v Val) {
	if sc.bound > 0 {
		return
	}
	r := sc.reach
	if r == "" {
		r = "true"
	}
	st := sc.st
	sc.e.wfAssume(&st, r, v)
}

func (sc *Scope) ident(name string) Val {
	e := sc.e
	switch name {
	case "true":
		return boolVal("true")
	case "false":
		return boolVal("false")
	case "nil":
		return Val{T: types.Typ[types.UntypedNil], L: []string{c64(0)}}
	}
	if v, ok := sc.names[name]; ok {
		return v
	}
	if sc.fr != nil {
		var obj types.Object
		if sc.e.ctx != nil {
			obj = sc.lookupLocal(name)
		}
		if val, isAddr, ok := sc.fr.resolveVar(e, obj, name, sc.at, sc.atEnd); ok {
			v := e.val(sc.fr, val)
			if isAddr {
				return e.loadPtr(&sc.st, v)
			}
			return v
		}
	}
	// package level
	if sc.pkg != nil {
		if obj := sc.pkg.Scope().Lookup(name); obj != nil {
			return sc.pkgObj(obj)
		}
	}
	if obj := types.Universe.Lookup(name); obj != nil {
		if c, ok := obj.(*types.Const); ok {
			return sc.constObj(c)
		}
	}
	return sc.fail("unknown identifier %q", name)
}

func (sc *Scope) lookupLocal(name string) types.Object {
	fn := sc.fr.fn
	syn := fn.Syntax()
	if syn == nil {
		return nil
	}
	// innermost scope at the program point: use the loop statement position when evaluating loop clauses
	pos := syn.Pos()
	if sc.at != nil {
		if li := sc.fr.loops[sc.at]; li != nil && li.stmt != nil {
			switch s := li.stmt.(type) {
			case *ast.ForStmt:
				pos = s.Body.Lbrace
			case *ast.RangeStmt:
				pos = s.Body.Lbrace
			}
		} else if sc.atEnd {
			switch s := syn.(type) {
			case *ast.FuncDecl:
				pos = s.Body.Rbrace - 1
			case *ast.FuncLit:
				pos = s.Body.Rbrace - 1
			}
		}
	}
	pkg := fn.Pkg
	if pkg == nil {
		return nil
	}
	inner := pkg.Pkg.Scope().Innermost(pos)
	if inner == nil {
		return nil
	}
	_, obj := inner.LookupParent(name, pos)
	if obj == nil {
		// for-loop init variables live in the for statement's scope, visible at the body
		return nil
	}
	if _, ok := obj.(*types.Var); !ok {
		return nil
	}
	if obj.Parent() == pkg.Pkg.Scope() || obj.Parent() == types.Universe {
		return nil
	}
	return obj
}

func (sc *Scope) pkgObj(obj types.Object) Val {
	e := sc.e
	switch o := obj.(type) {
	case *types.Const:
		return sc.constObj(o)
	case *types.Var:
		loc := &Loc{Kind: 'g', Base: "G|" + o.Pkg().Name() + "." + o.Name(), T: o.Type()}
		_ = e
		return sc.loadSpec(loc)
	}
	return sc.fail("unsupported package-level object %s", obj.Name())
}

func (sc *Scope) constObj(c *types.Const) Val {
	switch c.Val().Kind() {
	case constant.Bool:
		if constant.BoolVal(c.Val()) {
			return boolVal("true")
		}
		return boolVal("false")
	case constant.Int:
		bi, _ := new(big.Int).SetString(c.Val().ExactString(), 10)
		if b, ok := c.Type().Underlying().(*types.Basic); ok && b.Info()&types.IsUntyped == 0 {
			return Val{T: c.Type(), L: []string{bvLit(bi, widthOf(c.Type()))}}
		}
		return untyped(bi)
	case constant.String:
		return sc.e.strLit(constant.StringVal(c.Val()), c.Type())
	}
	return sc.fail("unsupported constant %s", c.Name())
}

func (sc *Scope) selector(n *ast.SelectorExpr) Val {
	e := sc.e
	// package-qualified
	if id, ok := n.X.(*ast.Ident); ok {
		if _, bound := sc.names[id.Name]; !bound && sc.pkg != nil {
			for _, imp := range sc.pkg.Imports() {
				if imp.Name() == id.Name {
					if sc.fr != nil && sc.lookupLocal(id.Name) != nil {
						break
					}
					obj := imp.Scope().Lookup(n.Sel.Name)
					if obj == nil {
						return sc.fail("unknown %s.%s", id.Name, n.Sel.Name)
					}
					return sc.pkgObj(obj)
				}
			}
		}
	}
	// ghost(x).f
	if c, ok := n.X.(*ast.CallExpr); ok {
		if id, ok := c.Fun.(*ast.Ident); ok && id.Name == "ghost" && len(c.Args) == 1 {
			x := sc.expr(c.Args[0])
			ref := ""
			switch {
			case x.Loc != nil:
				return sc.fail("ghost() of structural pointer")
			case isIface(x.T):
				ref = x.L[1]
			case len(x.L) == 1:
				ref = x.L[0]
			default:
				return sc.fail("ghost() needs a reference")
			}
			g, ok := ghostFields[n.Sel.Name]
			if !ok {
				return sc.fail("unknown ghost field %s", n.Sel.Name)
			}
			if (n.Sel.Name == "rpos" || n.Sel.Name == "rlen") && sc.bound == 0 {
				// well-formedness of the abstract reader is an invariant of the trusted stream model
				st := sc.st
				rp, rl := e.gget(&st, "rpos", ref), e.gget(&st, "rlen", ref)
				r := sc.reach
				if r == "" {
					r = "true"
				}
				e.assume(imp(r, and(app("bvsle", c64(0), rp), app("bvsle", rp, rl), app("bvsle", rl, c64(maxLen)))))
			}
			return Val{T: g.T, L: []string{sel(e.get(&sc.st, "H|ghost."+n.Sel.Name, g.S), ref)}}
		}
	}
	x := sc.expr(n.X)
	return sc.field(x, n.Sel.Name)
}

func (sc *Scope) field(x Val, name string) Val {
	if x.T == nil {
		return sc.fail("selector on untyped value")
	}
	var st *types.Struct
	var base types.Type
	if x.Loc != nil {
		base = x.Loc.T
	} else if p := derefT(x.T); p != nil {
		base = p
	} else {
		base = x.T
	}
	st, _ = base.Underlying().(*types.Struct)
	if st == nil {
		return sc.fail("selector .%s on non-struct %s", name, typeKey(x.T))
	}
	// find field (incl. promoted through embedded structs, one level)
	idx := -1
	for i := 0; i < st.NumFields(); i++ {
		if st.Field(i).Name() == name {
			idx = i
		}
	}
	if idx < 0 {
		for i := 0; i < st.NumFields(); i++ {
			if st.Field(i).Embedded() {
				inner := sc.field(x, st.Field(i).Name())
				if s2, ok := derefOrSelf(inner.T).Underlying().(*types.Struct); ok {
					for j := 0; j < s2.NumFields(); j++ {
						if s2.Field(j).Name() == name {
							return sc.field(inner, name)
						}
					}
				}
			}
		}
		return sc.fail("no field %s in %s", name, typeKey(base))
	}
	f := st.Field(idx)
	if x.Loc != nil {
		l := *x.Loc
		l.Path += "." + f.Name()
		l.T = f.Type()
		if _, isStruct := f.Type().Underlying().(*types.Struct); isStruct {
			return Val{T: types.NewPointer(f.Type()), Loc: &l}
		}
		return sc.loadSpec(&l)
	}
	if isPtr(x.T) {
		l := &Loc{Kind: 'f', Base: "H|" + typeKey(base), Path: "." + f.Name(), Ref: x.L[0], T: f.Type()}
		if _, isStruct := f.Type().Underlying().(*types.Struct); isStruct {
			return Val{T: types.NewPointer(f.Type()), Loc: l}
		}
		return sc.loadSpec(l)
	}
	// struct value
	off := 0
	for i := 0; i < idx; i++ {
		off += len(layout(st.Field(i).Type()))
	}
	nl := len(layout(f.Type()))
	if off+nl > len(x.L) {
		return sc.fail("struct layout mismatch")
	}
	return Val{T: f.Type(), L: x.L[off : off+nl]}
}

func derefOrSelf(t types.Type) types.Type {
	if t == nil {
		return types.Typ[types.Invalid]
	}
	if p := derefT(t); p != nil {
		return p
	}
	return t
}

func (sc *Scope) binary(n *ast.BinaryExpr) Val {
	switch n.Op {
	case token.LAND:
		// the right operand is evaluated under the guard of the left one: assumptions made while evaluating it (inlined
		// method bodies, well-formedness of loaded values) must not leak onto paths where the left operand is false
		l := sc.b(sc.expr(n.X))
		return boolVal(and(l, sc.b(sc.guarded(l).expr(n.Y))))
	case token.LOR:
		l := sc.b(sc.expr(n.X))
		return boolVal(or(l, sc.b(sc.guarded(not(l)).expr(n.Y))))
	}
	// string compared with a literal: content equality
	if n.Op == token.EQL || n.Op == token.NEQ {
		if lit, ok := n.Y.(*ast.BasicLit); ok && lit.Kind == token.STRING {
			a := sc.expr(n.X)
			if a.Loc != nil {
				a = sc.e.load(&sc.st, a.Loc)
			}
			if isString(a.T) {
				str, _ := strconv.Unquote(lit.Value)
				st := sc.st
				c := sc.e.strEqLit(&st, a, str)
				if n.Op == token.NEQ {
					c = not(c)
				}
				return boolVal(c)
			}
		}
	}
	a, b := sc.expr(n.X), sc.expr(n.Y)
	if a.Loc != nil && a.T != nil && !isPtr(a.T) {
		a = sc.e.load(&sc.st, a.Loc)
	}
	if b.Loc != nil && b.T != nil && !isPtr(b.T) {
		b = sc.e.load(&sc.st, b.Loc)
	}
	// constants
	if a.C != nil && b.C != nil {
		r := new(big.Int)
		switch n.Op {
		case token.ADD:
			return untyped(r.Add(a.C, b.C))
		case token.SUB:
			return untyped(r.Sub(a.C, b.C))
		case token.MUL:
			return untyped(r.Mul(a.C, b.C))
		case token.QUO:
			if b.C.Sign() == 0 {
				return sc.fail("constant division by zero")
			}
			return untyped(r.Quo(a.C, b.C))
		case token.REM:
			if b.C.Sign() == 0 {
				return sc.fail("constant division by zero")
			}
			return untyped(r.Rem(a.C, b.C))
		case token.SHL:
			return untyped(r.Lsh(a.C, uint(b.C.Int64())))
		case token.SHR:
			return untyped(r.Rsh(a.C, uint(b.C.Int64())))
		case token.AND:
			return untyped(r.And(a.C, b.C))
		case token.OR:
			return untyped(r.Or(a.C, b.C))
		case token.XOR:
			return untyped(r.Xor(a.C, b.C))
		case token.EQL:
			return boolVal(fmt.Sprint(a.C.Cmp(b.C) == 0))
		case token.NEQ:
			return boolVal(fmt.Sprint(a.C.Cmp(b.C) != 0))
		case token.LSS:
			return boolVal(fmt.Sprint(a.C.Cmp(b.C) < 0))
		case token.LEQ:
			return boolVal(fmt.Sprint(a.C.Cmp(b.C) <= 0))
		case token.GTR:
			return boolVal(fmt.Sprint(a.C.Cmp(b.C) > 0))
		case token.GEQ:
			return boolVal(fmt.Sprint(a.C.Cmp(b.C) >= 0))
		}
	}
	if n.Op == token.SHL || n.Op == token.SHR {
		a = sc.at_(a, types.Typ[types.Int])
		b = sc.at_(b, types.Typ[types.Uint])
		if len(a.L) != 1 || len(b.L) != 1 {
			return sc.fail("bad shift operands")
		}
		return Val{T: a.T, L: []string{shiftTerm(n.Op == token.SHL, isSigned(a.T), a.L[0], widthOf(a.T), b.L[0], widthOf(b.T))}}
	}
	if a.C != nil {
		a = sc.at_(a, b.T)
	}
	if b.C != nil {
		b = sc.at_(b, a.T)
	}
	if a.T == nil || b.T == nil {
		return sc.fail("untyped operand in %s", n.Op)
	}
	// nil comparisons and reference equality
	if n.Op == token.EQL || n.Op == token.NEQ {
		var c string
		switch {
		case isBool(a.T) && isBool(b.T):
			c = eq(a.L[0], b.L[0])
		case isInt(a.T) && isInt(b.T):
			if widthOf(a.T) != widthOf(b.T) {
				return sc.fail("comparison of %s with %s", typeKey(a.T), typeKey(b.T))
			}
			c = eq(a.L[0], b.L[0])
		case isNilVal(b) || isNilVal(a):
			o := a
			if isNilVal(a) {
				o = b
			}
			if o.Loc != nil {
				c = "false"
			} else {
				c = eq(o.L[0], c64(0))
			}
		case a.Loc != nil || b.Loc != nil:
			return sc.fail("comparison of structural pointers")
		default:
			if len(a.L) != len(b.L) {
				return sc.fail("comparison of %s with %s", typeKey(a.T), typeKey(b.T))
			}
			var cs []string
			n := len(a.L)
			if _, ok := a.T.Underlying().(*types.Slice); ok {
				n = 3 // slices "equal" as views: same region, offset, length
			}
			for i := 0; i < n; i++ {
				cs = append(cs, eq(a.L[i], b.L[i]))
			}
			c = and(cs...)
		}
		if n.Op == token.NEQ {
			c = not(c)
		}
		return boolVal(c)
	}
	if !isInt(a.T) || !isInt(b.T) || len(a.L) != 1 || len(b.L) != 1 {
		return sc.fail("operator %s on %s and %s", n.Op, typeKey(a.T), typeKey(b.T))
	}
	if widthOf(a.T) != widthOf(b.T) || isSigned(a.T) != isSigned(b.T) {
		return sc.fail("operator %s on mismatched types %s and %s (%s)", n.Op, typeKey(a.T), typeKey(b.T), exprString(n))
	}
	sg := isSigned(a.T)
	A, B := a.L[0], b.L[0]
	pick := func(u, s string) string {
		if sg {
			return s
		}
		return u
	}
	switch n.Op {
	case token.ADD:
		return Val{T: a.T, L: []string{app("bvadd", A, B)}}
	case token.SUB:
		return Val{T: a.T, L: []string{app("bvsub", A, B)}}
	case token.MUL:
		return Val{T: a.T, L: []string{app("bvmul", A, B)}}
	case token.QUO:
		return Val{T: a.T, L: []string{app(pick("bvudiv", "bvsdiv"), A, B)}}
	case token.REM:
		return Val{T: a.T, L: []string{app(pick("bvurem", "bvsrem"), A, B)}}
	case token.AND:
		return Val{T: a.T, L: []string{app("bvand", A, B)}}
	case token.OR:
		return Val{T: a.T, L: []string{app("bvor", A, B)}}
	case token.XOR:
		return Val{T: a.T, L: []string{app("bvxor", A, B)}}
	case token.AND_NOT:
		return Val{T: a.T, L: []string{app("bvand", A, app("bvnot", B))}}
	case token.LSS:
		return boolVal(app(pick("bvult", "bvslt"), A, B))
	case token.LEQ:
		return boolVal(app(pick("bvule", "bvsle"), A, B))
	case token.GTR:
		return boolVal(app(pick("bvugt", "bvsgt"), A, B))
	case token.GEQ:
		return boolVal(app(pick("bvuge", "bvsge"), A, B))
	}
	return sc.fail("unsupported operator %s", n.Op)
}

func exprString(x ast.Expr) string {
	return types.ExprString(x)
}

func isNilVal(v Val) bool {
	if v.T == nil {
		return false
	}
	b, ok := v.T.(*types.Basic)
	return ok && b.Kind() == types.UntypedNil
}

func (sc *Scope) call(n *ast.CallExpr) Val {
	e := sc.e
	if id, ok := n.Fun.(*ast.Ident); ok {
		switch id.Name {
		case "len", "cap":
			if len(n.Args) != 1 {
				return sc.fail("len/cap arity")
			}
			a := sc.expr(n.Args[0])
			if a.Loc != nil {
				a = e.load(&sc.st, a.Loc)
			}
			if isSliceLike(a.T) {
				if id.Name == "len" {
					return Val{T: types.Typ[types.Int], L: []string{a.sLen()}}
				}
				return Val{T: types.Typ[types.Int], L: []string{a.sCap()}}
			}
			if arr, ok := a.T.Underlying().(*types.Array); ok {
				return untyped(big.NewInt(arr.Len()))
			}
			return sc.fail("len of %s", typeKey(a.T))
		case "old":
			if sc.old == nil {
				return sc.fail("old() not available here")
			}
			c := sc.child()
			c.st = sc.old.clone()
			c.old = nil
			// locals in old(): parameters only (entry values)
			return c.expr(n.Args[0])
		case "idx":
			return sc.rangeIdx(n)
		case "ite":
			if len(n.Args) != 3 {
				return sc.fail("ite arity")
			}
			c := sc.b(sc.expr(n.Args[0]))
			a, b := sc.guarded(c).expr(n.Args[1]), sc.guarded(not(c)).expr(n.Args[2])
			if a.C != nil {
				a = sc.at_(a, b.T)
			}
			if b.C != nil {
				b = sc.at_(b, a.T)
			}
			if len(a.L) != len(b.L) {
				return sc.fail("ite branches differ")
			}
			r := Val{T: a.T, L: make([]string, len(a.L))}
			for i := range a.L {
				r.L[i] = ite(c, a.L[i], b.L[i])
			}
			return r
		case "trApp":
			if len(n.Args) != 2 {
				return sc.fail("trApp arity")
			}
			a, b := sc.expr(n.Args[0]), sc.expr(n.Args[1])
			if len(a.L) != 1 || len(b.L) != 1 {
				return sc.fail("trApp arguments")
			}
			return Val{T: types.Typ[types.Uint64], L: []string{e.trApp(a.L[0], b.L[0])}}
		case "trEmpty":
			e.uf("TR!empty", "", bv64)
			return Val{T: types.Typ[types.Uint64], L: []string{"TR!empty"}}
		case "trFlat":
			if len(n.Args) != 1 {
				return sc.fail("trFlat arity")
			}
			a := sc.expr(n.Args[0])
			if len(a.L) != 1 {
				return sc.fail("trFlat argument")
			}
			e.uf("TR!flat", bv64s, bv64)
			return Val{T: types.Typ[types.Uint64], L: []string{app("TR!flat", a.L[0])}}
		case "chU":
			if len(n.Args) != 2 {
				return sc.fail("chU arity")
			}
			w := sc.expr(n.Args[0])
			v := sc.expr(n.Args[1])
			if w.C == nil || len(v.L) != 1 || !isInt(v.T) {
				return sc.fail("chU(width constant, integer)")
			}
			return Val{T: types.Typ[types.Uint64], L: []string{e.chU(int(w.C.Int64()), resize(v.L[0], widthOf(v.T), 64, false))}}
		case "chBytes":
			a := sc.expr(n.Args[0])
			if a.Loc != nil {
				a = e.load(&sc.st, a.Loc)
			}
			if !isSliceLike(a.T) && !isString(a.T) {
				return sc.fail("chBytes of %s", typeKey(a.T))
			}
			return Val{T: types.Typ[types.Uint64], L: []string{e.chBytes(a)}}
		case "chEnc":
			a := sc.expr(n.Args[0])
			if a.Loc != nil {
				return sc.fail("chEnc of structural value")
			}
			if !isIface(a.T) {
				// a concrete pointer: box it with its type tag
				if !isPtr(a.T) || len(a.L) != 1 {
					return sc.fail("chEnc needs an interface or pointer value")
				}
				a = Val{T: a.T, L: []string{e.typeID(a.T), a.L[0]}}
			}
			st := sc.st
			return Val{T: types.Typ[types.Uint64], L: []string{e.chEnc(a, &st)}}
		case "ref":
			// ref(x): the region/object reference of a slice or pointer (for aliasing statements)
			a := sc.expr(n.Args[0])
			if a.Loc != nil || len(a.L) == 0 {
				return sc.fail("ref() of structural pointer")
			}
			return Val{T: types.Typ[types.Uint64], L: []string{a.L[0]}}
		case "fresh":
			// fresh(x): reference allocated during the call (not existing in the old state)
			a := sc.expr(n.Args[0])
			if a.Loc != nil || len(a.L) == 0 || sc.old == nil {
				return sc.fail("fresh() misuse")
			}
			o := *sc.old
			return boolVal(app("bvuge", a.L[0], e.getRaw(&o, "$alloc")))
		case "vdiff":
			// vdiff(a, b): a-b as a termination measure (widened to int64 for operands narrower than 64 bits)
			if len(n.Args) != 2 {
				return sc.fail("vdiff arity")
			}
			a, b := sc.expr(n.Args[0]), sc.expr(n.Args[1])
			if a.C != nil && b.C != nil {
				return untyped(new(big.Int).Sub(a.C, b.C))
			}
			if a.C != nil {
				a = sc.at_(a, b.T)
			}
			if b.C != nil {
				b = sc.at_(b, a.T)
			}
			if len(a.L) != 1 || len(b.L) != 1 || !isInt(a.T) || !isInt(b.T) {
				return sc.fail("vdiff operands")
			}
			// operands that are widening conversions of narrower integers (plus constants) cannot exceed 2^33: measure in int64
			narrow := func(x ast.Expr) bool {
				ok := true
				ast.Inspect(x, func(m ast.Node) bool {
					if m == nil {
						return true
					}
					switch y := m.(type) {
					case *ast.CallExpr:
						if id, isId := y.Fun.(*ast.Ident); isId && len(y.Args) == 1 && (id.Name == "uint64" || id.Name == "int64" || id.Name == "int" || id.Name == "uint") {
							inner := sc.expr(y.Args[0])
							if inner.C == nil && (len(inner.L) != 1 || !isInt(inner.T) || widthOf(inner.T) >= 64) {
								ok = false
							}
							return false
						}
						ok = false
						return false
					case *ast.Ident, *ast.SelectorExpr:
						v := sc.expr(m.(ast.Expr))
						if v.C == nil && (len(v.L) != 1 || !isInt(v.T) || widthOf(v.T) >= 64) {
							ok = false
						}
						return false
					case *ast.BasicLit, *ast.BinaryExpr, *ast.ParenExpr:
						return true
					}
					ok = false
					return false
				})
				return ok
			}
			if widthOf(a.T) == 64 && widthOf(b.T) == 64 && isSigned(a.T) == isSigned(b.T) && !(narrow(n.Args[0]) && narrow(n.Args[1])) {
				return Val{T: a.T, L: []string{app("bvsub", a.L[0], b.L[0])}}
			}
			i64 := types.Typ[types.Int64]
			return Val{T: i64, L: []string{app("bvsub", resize(a.L[0], widthOf(a.T), 64, isSigned(a.T)), resize(b.L[0], widthOf(b.T), 64, isSigned(b.T)))}}
		case "implements":
			// implements(x, "io.ReadSeeker"): the dynamic type of interface value x implements the named interface
			a := sc.expr(n.Args[0])
			lit, ok := n.Args[1].(*ast.BasicLit)
			if !ok || !isIface(a.T) {
				return sc.fail("implements misuse")
			}
			s, _ := strconv.Unquote(lit.Value)
			t := e.ctx.parseType(sc.pkg, s)
			if t == nil || !isIface(t) {
				return sc.fail("unknown interface %s", s)
			}
			return boolVal(e.implTerm(t, a.L[0]))
		case "ebspSync":
			// ebspSync(rd): the decoder monitors of abstract reader rd are those of its consumed prefix
			a := sc.expr(n.Args[0])
			if !isIface(a.T) {
				return sc.fail("ebspSync misuse")
			}
			e.declDecoderFns()
			r := a.L[1]
			st := sc.st
			rdata, rpos := e.gget(&st, "rdata", r), e.gget(&st, "rpos", r)
			return boolVal(and(eq(e.gget(&st, "rz", r), app("RZ", rdata, rpos)), eq(e.gget(&st, "rplen", r), app("RPLEN", rdata, rpos)), eq(e.gget(&st, "rpay", r), app("RPAY", rdata, rpos))))
		case "typeis":
			// typeis(x, "pkg.T"): dynamic type of interface value
			a := sc.expr(n.Args[0])
			lit, ok := n.Args[1].(*ast.BasicLit)
			if !ok || !isIface(a.T) {
				return sc.fail("typeis misuse")
			}
			s, _ := strconv.Unquote(lit.Value)
			t := e.ctx.parseType(sc.pkg, s)
			if t == nil {
				return sc.fail("unknown type %s", s)
			}
			return boolVal(eq(a.L[0], e.typeID(t)))
		}
		// conversion to a basic or named type
		if t := e.ctx.parseType(sc.pkg, id.Name); t != nil && len(n.Args) == 1 {
			if _, isSpec := e.ctx.specFn(sc.pkg, id.Name); !isSpec {
				return sc.convert(sc.expr(n.Args[0]), t)
			}
		}
		if ap := e.ctx.absPredKey(sc.pkg, id.Name); ap != "" && len(n.Args) == 1 {
			return sc.applyAbsPred(ap, id.Name, sc.expr(n.Args[0]))
		}
		if sf, ok := e.ctx.specFn(sc.pkg, id.Name); ok {
			return sc.applySpec(sf, n.Args)
		}
		return sc.fail("unknown function %s in spec", id.Name)
	}
	// method call on a value: pure Go method, inlined
	if sel, ok := n.Fun.(*ast.SelectorExpr); ok {
		// conversion with qualified or composite type e.g. []byte(x) is not an ident; try type parse
		recv := sc.expr(sel.X)
		if recv.T == nil {
			return sc.fail("bad receiver")
		}
		var args []Val
		for _, a := range n.Args {
			args = append(args, sc.expr(a))
		}
		if recv.Loc == nil && isIface(recv.T) && len(recv.L) == 2 {
			// interface receiver: statically known dynamic type, or an abstract pure method
			if id, ok := constInt(recv.L[0]); ok && id != 0 {
				if t := e.ctx.typeByID(int(id)); t != nil {
					rv := Val{T: t, L: []string{recv.L[1]}}
					if bx, found := e.boxed[recv.L[1]]; found {
						rv = bx
					}
					return sc.pureMethod(rv, sel.Sel.Name, args)
				}
			}
			if m := ifaceMethod(recv.T, sel.Sel.Name); m != nil && e.ctx.isAbsMethod(m) {
				st := sc.st
				r := sc.reach
				if r == "" {
					r = "true"
				}
				return e.absCall(recv, m, &st, r, sc.bound == 0)
			}
			return sc.fail("method %s on interface %s: dynamic type unknown and not an absmethod", sel.Sel.Name, typeKey(recv.T))
		}
		return sc.pureMethod(recv, sel.Sel.Name, args)
	}
	if _, ok := n.Fun.(*ast.ArrayType); ok && len(n.Args) == 1 {
		t := e.ctx.parseType(sc.pkg, types.ExprString(n.Fun))
		if t != nil {
			return sc.convert(sc.expr(n.Args[0]), t)
		}
	}
	return sc.fail("unsupported call in spec: %s", types.ExprString(n))
}

func (sc *Scope) convert(v Val, t types.Type) Val {
	if v.C != nil {
		if isInt(t) {
			return Val{T: t, L: []string{bvLit(v.C, widthOf(t))}}
		}
		return sc.fail("constant conversion to %s", typeKey(t))
	}
	if v.Loc != nil {
		return sc.fail("conversion of structural pointer")
	}
	if isInt(v.T) && isInt(t) {
		return Val{T: t, L: []string{resize(v.L[0], widthOf(v.T), widthOf(t), isSigned(v.T))}}
	}
	if len(layout(t)) == len(v.L) {
		return Val{T: t, L: v.L}
	}
	return sc.fail("conversion %s -> %s", typeKey(v.T), typeKey(t))
}

func (sc *Scope) applySpec(sf *SpecFn, args []ast.Expr) Val {
	if len(args) != len(sf.Params) {
		return sc.fail("spec %s: arity", sf.Name)
	}
	if sc.depth > 40 {
		return sc.fail("spec %s: expansion too deep (recursive?)", sf.Name)
	}
	var vals []Val
	for _, a := range args {
		vals = append(vals, sc.expr(a))
	}
	return sc.applySpecVals(sf, vals)
}

func (sc *Scope) applySpecVals(sf *SpecFn, args []Val) Val {
	if len(args) != len(sf.Params) {
		return sc.fail("spec %s: arity", sf.Name)
	}
	pkg := sc.e.ctx.typesPkg(sf.Pkg)
	c := &Scope{e: sc.e, st: sc.st, old: sc.old, names: map[string]Val{}, pkg: pkg, err: sc.err, depth: sc.depth + 1, bound: sc.bound, reach: sc.reach}
	for i, p := range sf.Params {
		v := args[i]
		t := sc.e.ctx.parseType(pkg, p.Type)
		if t == nil {
			return sc.fail("spec %s: unknown type %s", sf.Name, p.Type)
		}
		if v.C != nil {
			v = sc.at_(v, t)
		}
		if v.Loc == nil && len(layout(t)) != len(v.L) {
			return sc.fail("spec %s: argument %d has type %s, want %s", sf.Name, i, typeKey(v.T), p.Type)
		}
		if v.Loc == nil {
			if isInt(t) && isInt(v.T) && widthOf(t) != widthOf(v.T) {
				return sc.fail("spec %s: argument %d has type %s, want %s", sf.Name, i, typeKey(v.T), p.Type)
			}
			v = Val{T: t, L: v.L}
		}
		c.names[p.Name] = v
	}
	if sf.Rec {
		var vals []Val
		for _, p := range sf.Params {
			v := c.names[p.Name]
			if v.Loc != nil {
				return sc.fail("spec rec %s: structural argument", sf.Name)
			}
			vals = append(vals, v)
		}
		return sc.applyRec(sf, vals)
	}
	r := c.formula(sf.Body)
	if sf.Ret != "" {
		if t := sc.e.ctx.parseType(pkg, sf.Ret); t != nil && r.C != nil {
			r = sc.at_(r, t)
		}
	}
	return r
}

func (sc *Scope) rangeIdx(n *ast.CallExpr) Val {
	if sc.fr == nil || len(n.Args) != 1 {
		return sc.fail("idx() outside loop clause")
	}
	v := sc.expr(n.Args[0])
	if v.C == nil {
		return sc.fail("idx(n) needs a constant loop ordinal")
	}
	ord := int(v.C.Int64())
	for h, li := range sc.fr.loops {
		if li.ordinal != ord {
			continue
		}
		for _, in := range h.Instrs {
			phi, ok := in.(*ssa.Phi)
			if !ok {
				break
			}
			if phi.Comment == "rangeindex" {
				pv := sc.e.val(sc.fr, phi)
				return Val{T: types.Typ[types.Int], L: []string{bvadd(pv.L[0], c64(1))}}
			}
		}
	}
	return sc.fail("idx(%d): no range loop with that ordinal", ord)
}

// evalClauseAt evaluates a boolean loop clause with locals resolved at the start of block at.
func (e *Enc) evalClauseAt(fr *Frame, c *Clause, at *ssa.BasicBlock, st State) string {
	v := e.evalClauseValAt(fr, c, at, st)
	if len(v.L) != 1 || !isBool(v.T) {
		e.fatalf("%s:%d: clause is not boolean: %s", c.File, c.Line, c.Text)
		return "false"
	}
	return v.L[0]
}

func (e *Enc) evalClauseValAt(fr *Frame, c *Clause, at *ssa.BasicBlock, st State) Val {
	errs := ""
	sc := &Scope{e: e, fr: fr, st: st.clone(), old: &fr.entrySt, names: e.paramNames(fr), at: at, pkg: fr.fn.Pkg.Pkg, err: &errs, reach: fr.reach[at]}
	v := sc.formula(c.F)
	if errs != "" {
		if c.Auto {
			return boolVal("true") // a generated candidate that does not bind is simply not a candidate
		}
		e.fatalf("%s:%d: binding error: %s in %q", c.File, c.Line, errs, c.Text)
		return boolVal("false")
	}
	if c.Auto && (len(v.L) != 1 || !isBool(v.T)) {
		return boolVal("true")
	}
	if v.C != nil {
		v = sc.at_(v, types.Typ[types.Int])
	}
	return v
}

// paramNames: x0 (entry value) for each parameter x, and x itself for use in requires/ensures.
func (e *Enc) paramNames(fr *Frame) map[string]Val {
	m := map[string]Val{}
	for i, p := range fr.fn.Params {
		m[p.Name()+"0"] = e.val(fr, p)
		m[fmt.Sprintf("p%d", i)] = e.val(fr, p)
	}
	return m
}

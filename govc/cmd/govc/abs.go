package main

// Abstract pure interface methods (absmethod), heap epochs, and recursive specification functions over the heap (spec rec).
//
// absmethod M: a dynamic call x.M() on an interface value whose dynamic type is not known statically is the application of an
// uninterpreted function AM!M to (type tag, payload, epoch). The epoch is a syntactic identifier of the current versions of all
// heap arrays except those listed in epochExempt, so two calls are related only when no relevant heap array changed between
// them. What this assumes of the implementations (no side effects; no reads of the exempt arrays; determinism) is checked
// statically by checkAbsMethods and listed in the evidence.

import (
	"fmt"
	"go/ast"
	"go/types"
	"os"
	"regexp"
	"sort"
	"strconv"
	"strings"

	"golang.org/x/tools/go/ssa"
)

var reEpochExempt = regexp.MustCompile(`^(\$|H\|ghost\.|M\|uint8$|M\|any\.|H\|[^|]*bits\.FixedSliceWriter\.)`)

func (e *Enc) epochOf(st *State) string {
	e.epochUsed = true
	if p, ok := st.cur["$epoch"]; ok {
		return p
	}
	var parts []string
	for k, v := range st.cur {
		if reEpochExempt.MatchString(k) || v == symSafe(k)+"@0" {
			continue
		}
		parts = append(parts, k+"="+v)
	}
	sort.Strings(parts)
	sig := strings.Join(parts, ";")
	if e.epochs == nil {
		e.epochs = map[string]int{}
	}
	id, ok := e.epochs[sig]
	if !ok {
		id = len(e.epochs)
		e.epochs[sig] = id
		if os.Getenv("GOVC_DEBUG_EPOCH") != "" {
			fmt.Fprintf(os.Stderr, "epoch %d: %s\n", id, sig)
		}
	}
	return strconv.Itoa(id)
}

func (e *Enc) absCall(recv Val, m *types.Func, st *State, reach string, assumeWf bool) Val {
	sig := m.Type().(*types.Signature)
	rt := sig.Results().At(0).Type()
	v := Val{T: rt}
	ep := e.epochOf(st)
	for i, l := range layout(rt) {
		name := fmt.Sprintf("AM!%s.%s!%d", symSafe(m.Pkg().Path()), m.Name(), i)
		if !e.declSeen[name] {
			e.declSeen[name] = true
			e.decl = append(e.decl, fmt.Sprintf("(declare-fun %s ((_ BitVec 64) (_ BitVec 64) Int) %s)", name, l.Sort))
		}
		v.L = append(v.L, app(name, recv.L[0], recv.L[1], ep))
	}
	if e.absUsed != nil {
		e.absUsed[m.Pkg().Path()+"."+m.Name()] = true
	}
	if assumeWf && e.noDefine == 0 {
		e.wfAssume(st, reach, v)
	}
	return v
}

// ifaceMethod finds method name in the method set of interface type t.
func ifaceMethod(t types.Type, name string) *types.Func {
	it, ok := t.Underlying().(*types.Interface)
	if !ok {
		return nil
	}
	for i := 0; i < it.NumMethods(); i++ {
		if it.Method(i).Name() == name {
			return it.Method(i)
		}
	}
	return nil
}

// ---------- abstract predicate families ----------

func (ctx *Ctx) absPredKey(pkg *types.Package, name string) string {
	if pkg != nil && ctx.cs.AbsPreds[pkg.Path()+"."+name] {
		return pkg.Path() + "." + name
	}
	for k := range ctx.cs.AbsPreds {
		if strings.HasSuffix(k, "."+name) {
			return k
		}
	}
	return ""
}

// applyAbsPred: P(x). For a value of statically known dynamic type T this is the definition "pred P@T" (true when there is
// none); for an interface value of unknown dynamic type it is the uninterpreted AP!P(tag, payload, epoch).
func (sc *Scope) applyAbsPred(key, name string, v Val) Val {
	e := sc.e
	if v.Loc != nil {
		return sc.fail("%s: structural argument", name)
	}
	t := v.T
	if isIface(v.T) && len(v.L) == 2 {
		id, ok := constInt(v.L[0])
		if !ok {
			fn := "AP!" + symSafe(key)
			if !e.declSeen[fn] {
				e.declSeen[fn] = true
				e.decl = append(e.decl, fmt.Sprintf("(declare-fun %s ((_ BitVec 64) (_ BitVec 64) Int) Bool)", fn))
			}
			st := sc.st
			return boolVal(app(fn, v.L[0], v.L[1], e.epochOf(&st)))
		}
		if id == 0 {
			return boolVal("true")
		}
		t = e.ctx.typeByID(int(id))
		if t == nil {
			return sc.fail("%s: unknown type id", name)
		}
		if bx, found := e.boxed[v.L[1]]; found {
			v = bx
		} else {
			v = Val{T: t, L: []string{v.L[1]}}
		}
	}
	tn := typeKey(derefOrSelf(t))
	if i := strings.LastIndex(tn, "."); i >= 0 {
		tn = tn[i+1:]
	}
	pkgPath := key[:strings.LastIndex(key, ".")]
	sf, ok := e.ctx.cs.Specs[pkgPath+"."+name+"@"+tn]
	if !ok {
		return boolVal("true")
	}
	if e.absUsed != nil {
		e.absUsed[name+"@"+tn] = true
	}
	return sc.applySpecVals(sf, []Val{v})
}

// ---------- spec rec ----------

type recFrame struct {
	key    string
	slices []int // parameter indices of the slice parameters whose element memory is this key
}

type recDef struct {
	frames    []recFrame
	nIdx      int
	name      string
	keys      []string
	epoch     bool
	retT      types.Type
	compiling bool
	pass      int
}

func (sc *Scope) applyRec(sf *SpecFn, args []Val) Val {
	e := sc.e
	pkg := e.ctx.typesPkg(sf.Pkg)
	retT := e.ctx.parseType(pkg, sf.Ret)
	if retT == nil || len(layout(retT)) != 1 {
		return sc.fail("spec rec %s: scalar result type required", sf.Name)
	}
	if e.recDefs == nil {
		e.recDefs = map[*SpecFn]*recDef{}
	}
	rd := e.recDefs[sf]
	if rd == nil {
		rd = e.compileRec(sf, sc, retT)
		if rd == nil {
			return sc.fail("spec rec %s: cannot compile", sf.Name)
		}
	}
	if rd.compiling && rd.pass == 1 {
		return zeroVal(retT)
	}
	var terms []string
	for _, a := range args {
		terms = append(terms, a.L...)
	}
	for _, k := range rd.keys {
		if rd.compiling {
			terms = append(terms, "hp!"+symSafe(k))
		} else {
			e.seenKeys[k] = true
			if s, ok := sc.st.cur[k]; ok {
				terms = append(terms, s)
			} else {
				st := sc.st
				terms = append(terms, e.get(&st, k, leafOfKeySort(e.keySort[k])))
			}
		}
	}
	if rd.epoch {
		if rd.compiling {
			terms = append(terms, "hp!epoch")
		} else {
			terms = append(terms, e.epochOf(&sc.st))
		}
	}
	if !rd.compiling && e.noDefine == 0 && sc.bound == 0 && len(rd.frames) > 0 {
		e.recFrameInstances(rd, args, terms, &sc.st)
	}
	return Val{T: retT, L: []string{app(rd.name, terms...)}}
}

// recFrameInstances: ground instances of the frame axiom where they are needed. If the current version of an element memory
// the function reads is  store(M, r, store(select(M, r), x, v))  then, for N in {n, n-1}, f(.., N, .., M') == f(.., N, .., M)
// whenever x lies outside s[0..N-1] of the slice parameters over that memory (same argument as the axiom; E-matching does
// not find these instances because the n-1 term only appears after unfolding the recursive definition).
func (e *Enc) recFrameInstances(rd *recDef, args []Val, terms []string, st *State) {
	nLeaf := 0
	leafStart := make([]int, len(args))
	for i, a := range args {
		leafStart[i] = nLeaf
		nLeaf += len(a.L)
	}
	for _, fr := range rd.frames {
		// position of this key among the heap arguments
		kpos := -1
		for j, k := range rd.keys {
			if k == fr.key {
				kpos = nLeaf + j
			}
		}
		if kpos < 0 || kpos >= len(terms) {
			continue
		}
		cur := terms[kpos]
		for depth := 0; depth < 3; depth++ {
			def := cur
			if d, ok := e.defs[cur]; ok {
				def = d
			}
			n := parseSx(def)
			if !n.isApp("store") || len(n.kids) != 4 {
				break
			}
			prev, r, inner := n.kids[1].String(), n.kids[2].String(), n.kids[3]
			if !inner.isApp("store") || len(inner.kids) != 4 || !inner.kids[1].isApp("select") || inner.kids[1].kids[1].String() != prev {
				break
			}
			x := inner.kids[2].String()
			nTerm := terms[leafStart[rd.nIdx]]
			for _, N := range []string{nTerm, app("bvsub", nTerm, c64(1))} {
				var conds []string
				for _, si := range fr.slices {
					ref, off := terms[leafStart[si]], terms[leafStart[si]+1]
					conds = append(conds, or(not(eq(r, ref)), app("bvslt", x, off), app("bvsge", x, bvadd(off, N))))
				}
				a := append([]string{}, terms...)
				b := append([]string{}, terms...)
				a[leafStart[rd.nIdx]], b[leafStart[rd.nIdx]] = N, N
				a[kpos], b[kpos] = cur, prev
				e.assume(imp(and(conds...), eq(app(rd.name, a...), app(rd.name, b...))))
			}
			cur = prev
		}
		// the peeling is cumulative across the element memories: the next key's instances are stated over the oldest version of
		// this one, so that the chain (cur,cur) -> (prev,cur) -> (prev,prev) is complete
		terms = append([]string{}, terms...)
		terms[kpos] = cur
	}
}

func leafOfKeySort(s Sort) Sort {
	for s.K == 'a' && s.Elem != nil {
		s = *s.Elem
	}
	return s
}

func (e *Enc) compileRec(sf *SpecFn, from *Scope, retT types.Type) *recDef {
	pkg := e.ctx.typesPkg(sf.Pkg)
	rd := &recDef{name: "rec!" + sf.Name, compiling: true, pass: 1, retT: retT}
	e.recDefs[sf] = rd
	var binders []string
	names := map[string]Val{}
	for i, p := range sf.Params {
		t := e.ctx.parseType(pkg, p.Type)
		if t == nil {
			return nil
		}
		v := Val{T: t}
		for j, l := range layout(t) {
			s := fmt.Sprintf("rp!%d!%d", i, j)
			v.L = append(v.L, s)
			binders = append(binders, fmt.Sprintf("(%s %s)", s, l.Sort))
		}
		names[p.Name] = v
	}
	eval := func(st State) string {
		c := &Scope{e: e, st: st, names: map[string]Val{}, pkg: pkg, err: from.err, depth: from.depth + 1, bound: 1}
		for k, v := range names {
			c.names[k] = v
		}
		e.noDefine++
		r := c.formula(sf.Body)
		e.noDefine--
		if r.C != nil {
			r = c.at_(r, retT)
		}
		if len(r.L) != 1 {
			return ""
		}
		return r.L[0]
	}
	// pass 1: which heap keys does the body read?
	saved := e.seenKeys
	e.seenKeys = map[string]bool{}
	savedEp := e.epochUsed
	e.epochUsed = false
	eval(State{cur: map[string]string{"$epoch": "hp!epoch"}})
	for k := range e.seenKeys {
		rd.keys = append(rd.keys, k)
		saved[k] = true
	}
	sort.Strings(rd.keys)
	e.seenKeys = saved
	rd.epoch = e.epochUsed
	e.epochUsed = savedEp || rd.epoch
	// pass 2: the body over parameters
	rd.pass = 2
	st2 := State{cur: map[string]string{"$epoch": "hp!epoch"}}
	for _, k := range rd.keys {
		st2.cur[k] = "hp!" + symSafe(k)
		binders = append(binders, fmt.Sprintf("(hp!%s %s)", symSafe(k), e.keySort[k]))
	}
	if rd.epoch {
		binders = append(binders, "(hp!epoch Int)")
	}
	body := eval(st2)
	rd.compiling = false
	if body == "" {
		return nil
	}
	e.decl = append(e.decl, fmt.Sprintf("(define-fun-rec %s (%s) %s %s)", rd.name, strings.Join(binders, " "), layout(retT)[0].Sort, body))
	e.recFrameAxioms(sf, rd, pkg, binders)
	return rd
}

// recFrameAxioms: for a recursive specification function of the shape  f(.., s.., n, ..) = ite(n <= 0, e0, G(f(.., s.., n-1, ..), s[n-1]..))
// (every slice parameter indexed only at n-1, recursion on n-1 with the same slices) a store to the element memory outside
// s[0..n-1] of every slice parameter of that element type does not change f. Proved by induction on n on paper (the body at
// level n reads s[n-1] only); emitted as a quantifier-alternation-free axiom per element-memory key so that loops which write
// element i of a table while an invariant speaks about f(table, i) can be verified.
func (e *Enc) recFrameAxioms(sf *SpecFn, rd *recDef, pkg *types.Package, binders []string) {
	if sf.Body == nil || sf.Body.Kind != 'e' || sf.Body.Expr == nil {
		return
	}
	nIdx := -1
	type sl struct {
		idx  int
		name string
		elem types.Type
	}
	var slices []sl
	for i, p := range sf.Params {
		t := e.ctx.parseType(pkg, p.Type)
		if p.Name == "n" && t != nil && isInt(t) {
			nIdx = i
		}
		if t != nil {
			if st, ok := t.Underlying().(*types.Slice); ok {
				slices = append(slices, sl{i, p.Name, st.Elem()})
			}
		}
	}
	if nIdx < 0 || len(slices) == 0 {
		return
	}
	isSliceParam := map[string]bool{}
	for _, s := range slices {
		isSliceParam[s.name] = true
	}
	ok := true
	// top level: ite(n <= 0, ., .)
	top, isCall := sf.Body.Expr.(*ast.CallExpr)
	if !isCall || types.ExprString(top.Fun) != "ite" || len(top.Args) != 3 || strings.ReplaceAll(types.ExprString(top.Args[0]), " ", "") != "n<=0" {
		return
	}
	ast.Inspect(sf.Body.Expr, func(nd ast.Node) bool {
		switch x := nd.(type) {
		case *ast.IndexExpr:
			id, isId := x.X.(*ast.Ident)
			if !isId || !isSliceParam[id.Name] || strings.ReplaceAll(types.ExprString(x.Index), " ", "") != "n-1" {
				ok = false
			}
		case *ast.SliceExpr:
			ok = false
		case *ast.CallExpr:
			if id, isId := x.Fun.(*ast.Ident); isId && id.Name == sf.Name {
				if len(x.Args) != len(sf.Params) {
					ok = false
					return true
				}
				for i, a := range x.Args {
					txt := strings.ReplaceAll(types.ExprString(a), " ", "")
					if i == nIdx {
						if txt != "n-1" {
							ok = false
						}
					} else if isSliceParam[sf.Params[i].Name] && txt != sf.Params[i].Name {
						ok = false
					}
				}
			} else if isId && (id.Name == "len" || id.Name == "cap") {
				// len(s) of a slice parameter is a value, fine
			}
		case *ast.Ident:
			// a slice parameter used other than as s[n-1], len(s) or recursion argument (e.g. passed to another function) would
			// be caught here only roughly; other spec functions taking the slice are rejected
		}
		return true
	})
	if !ok {
		return
	}
	for _, k := range rd.keys {
		if !strings.HasPrefix(k, "M|") {
			continue
		}
		var conds []string
		for _, s := range slices {
			pre := "M|" + typeKey(s.elem)
			if k != pre && !strings.HasPrefix(k, pre+".") {
				continue
			}
			ref, off := fmt.Sprintf("rp!%d!0", s.idx), fmt.Sprintf("rp!%d!1", s.idx)
			nn := fmt.Sprintf("rp!%d!0", nIdx)
			conds = append(conds, or(not(eq("fr!r", ref)), app("bvslt", "fr!x", off), app("bvsge", "fr!x", bvadd(off, nn))))
		}
		if len(conds) == 0 {
			continue
		}
		srt := e.keySort[k]
		if srt.K != 'a' || srt.Elem == nil || srt.Elem.K != 'a' || srt.Elem.Elem == nil {
			continue
		}
		hp := "hp!" + symSafe(k)
		stored := fmt.Sprintf("(store %s fr!r (store (select %s fr!r) fr!x fr!v))", hp, hp)
		var argsA, argsB []string
		for _, b := range binders {
			name := strings.Fields(strings.TrimPrefix(b, "("))[0]
			argsB = append(argsB, name)
			if name == hp {
				argsA = append(argsA, stored)
			} else {
				argsA = append(argsA, name)
			}
		}
		lhs := app(rd.name, argsA...)
		rhs := app(rd.name, argsB...)
		e.decl = append(e.decl, fmt.Sprintf("(assert (forall (%s (fr!r (_ BitVec 64)) (fr!x (_ BitVec 64)) (fr!v %s)) (! (=> %s (= %s %s)) :pattern (%s))))",
			strings.Join(binders, " "), *srt.Elem.Elem, and(conds...), lhs, rhs, lhs))
		var idxs []int
		for _, sl := range slices {
			pre := "M|" + typeKey(sl.elem)
			if k == pre || strings.HasPrefix(k, pre+".") {
				idxs = append(idxs, sl.idx)
			}
		}
		rd.frames = append(rd.frames, recFrame{key: k, slices: idxs})
		rd.nIdx = nIdx
		e.note("frame axiom for recursive specification function %s over %s (by induction on n, not machine-checked)", sf.Name, k)
	}
}

// ---------- static side conditions of absmethod ----------

// checkAbsMethods: every implementation of an abstract pure method (a) writes nothing, (b) reads no epoch-exempt heap array
// (bytes, writer state), (c) reaches no map iteration, channel operation, goroutine or function without a body.
func (ctx *Ctx) checkAbsMethods() (checked []string, problems []string) {
	for key := range ctx.cs.AbsMethods {
		i := strings.LastIndex(key, ".")
		pkgPath, mname := key[:i], key[i+1:]
		for _, fk := range ctx.sortedFuncKeys() {
			fn := ctx.funcs[fk]
			if fn.Pkg == nil || fn.Pkg.Pkg.Path() != pkgPath || fn.Name() != mname || fn.Signature.Recv() == nil || fn.Blocks == nil || fn.Synthetic != "" {
				continue
			}
			if fn.Signature.Params().Len() != 0 {
				continue
			}
			checked = append(checked, shortKey(ctx.funcKey(fn)))
			seen := map[*ssa.Function]bool{}
			var walk func(f *ssa.Function)
			walk = func(f *ssa.Function) {
				if seen[f] {
					return
				}
				seen[f] = true
				if f.Blocks == nil {
					problems = append(problems, fmt.Sprintf("%s reaches %s, which has no body", shortKey(ctx.funcKey(fn)), f.String()))
					return
				}
				for _, b := range f.Blocks {
					for _, in := range b.Instrs {
						switch x := in.(type) {
						case *ssa.Store:
							if _, isAlloc := x.Addr.(*ssa.Alloc); !isAlloc {
								if !localAddr(x.Addr) {
									problems = append(problems, fmt.Sprintf("%s: %s stores to the heap", shortKey(ctx.funcKey(fn)), f.Name()))
								}
							}
						case *ssa.MapUpdate, *ssa.Send, *ssa.Go, *ssa.Select:
							problems = append(problems, fmt.Sprintf("%s: %s has a map update, channel operation or goroutine", shortKey(ctx.funcKey(fn)), f.Name()))
						case *ssa.Range:
							if _, isMap := x.X.Type().Underlying().(*types.Map); isMap {
								problems = append(problems, fmt.Sprintf("%s: %s iterates over a map", shortKey(ctx.funcKey(fn)), f.Name()))
							}
						case *ssa.UnOp:
							if x.Op.String() == "*" {
								if ia, ok := x.X.(*ssa.IndexAddr); ok {
									if b, ok := ia.Type().(*types.Pointer).Elem().Underlying().(*types.Basic); ok && b.Kind() == types.Uint8 {
										problems = append(problems, fmt.Sprintf("%s: %s reads byte contents", shortKey(ctx.funcKey(fn)), f.Name()))
									}
								}
								if fa, ok := x.X.(*ssa.FieldAddr); ok {
									if strings.HasSuffix(typeKey(derefOrSelf(fa.X.Type())), "bits.FixedSliceWriter") {
										problems = append(problems, fmt.Sprintf("%s: %s reads slice-writer state", shortKey(ctx.funcKey(fn)), f.Name()))
									}
								}
							}
						case *ssa.Index:
							if b, ok := x.X.Type().Underlying().(*types.Basic); ok && b.Info()&types.IsString != 0 {
								// string bytes are immutable values: fine
								_ = b
							}
						case ssa.CallInstruction:
							cc := x.Common()
							if cc.IsInvoke() {
								if ctx.isAbsMethod(cc.Method) {
									continue
								}
								problems = append(problems, fmt.Sprintf("%s: %s makes a dynamic call to %s", shortKey(ctx.funcKey(fn)), f.Name(), cc.Method.Name()))
								continue
							}
							if callee := cc.StaticCallee(); callee != nil {
								if _, isExt := externals[callee.String()]; isExt {
									continue
								}
								if callee.Pkg != nil && !ctx.isRepoFunc(callee) {
									switch callee.String() {
									case "fmt.Sprintf", "fmt.Errorf", "errors.New", "len":
										continue
									}
								}
								walk(callee)
							} else if _, isBuiltin := cc.Value.(*ssa.Builtin); !isBuiltin {
								problems = append(problems, fmt.Sprintf("%s: %s calls through a function value", shortKey(ctx.funcKey(fn)), f.Name()))
							}
						}
					}
				}
			}
			walk(fn)
		}
	}
	sort.Strings(checked)
	sort.Strings(problems)
	return
}

// localAddr: the address is derived from a local allocation (stores to it are not heap effects visible to callers).
func localAddr(v ssa.Value) bool {
	for {
		switch x := v.(type) {
		case *ssa.Alloc:
			return true
		case *ssa.FieldAddr:
			v = x.X
		case *ssa.IndexAddr:
			v = x.X
		default:
			return false
		}
	}
}

// ---------- abstract output traces (encoder equivalence, C03) ----------
// A trace is an uninterpreted value built by trApp(trace, chunk); chunks are chU(width, value) for fixed-width integers,
// chBytes(ref, off, len) for a byte slice or string (identified by its location, not its contents: the encoders do not
// modify the data they write), and chEnc(tag, payload) for "the encoding of that box" (whatever bytes its encoder
// produces). No injectivity is assumed of any of them; equal traces from equal start traces are read as equal byte output.

func (e *Enc) uf(name string, args string, res Sort) {
	if !e.declSeen[name] {
		e.declSeen[name] = true
		e.decl = append(e.decl, fmt.Sprintf("(declare-fun %s (%s) %s)", name, args, res))
	}
}

const bv64s = "(_ BitVec 64)"

func (e *Enc) trApp(t, c string) string {
	e.uf("TR!app", bv64s+" "+bv64s, bv64)
	return app("TR!app", t, c)
}

func (e *Enc) chU(width int, v string) string {
	e.uf("TR!u", "Int "+bv64s, bv64)
	return app("TR!u", strconv.Itoa(width), v)
}

func (e *Enc) chBytes(p Val) string {
	e.uf("TR!bytes", bv64s+" "+bv64s+" "+bv64s, bv64)
	return app("TR!bytes", p.sRef(), p.sOff(), p.sLen())
}

// chEnc carries no heap epoch: it stands for the encoding of that object at the moment the traversal reaches it; the two
// encoders of a pair reach their children in the same order from the same start state (argued, see DESIGN.md).
func (e *Enc) chEnc(x Val, st *State) string {
	e.uf("TR!enc", bv64s+" "+bv64s, bv64)
	return app("TR!enc", x.L[0], x.L[1])
}

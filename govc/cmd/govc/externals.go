package main

// Trusted models of standard-library functions (assumed contracts, never proved).

import (
	"fmt"
	"go/token"
	"go/types"
	"sync"
)

type extModel func(e *Enc, fr *Frame, args []Val, st *State, reach string, pos token.Pos, rt types.Type) Val

type ghostField struct {
	T types.Type
	S Sort
}

var bigByteArr = types.NewArray(types.Typ[types.Uint8], 1<<40)

var ghostFields = map[string]ghostField{
	// abstract io.Writer
	"wlen":     {types.Typ[types.Int], bv64},           // bytes accepted so far
	"wz":       {types.Typ[types.Int], bv64},           // trailing zero bytes of the output (0..2)
	"wlegal":   {types.Typ[types.Bool], BoolS()},       // no 00 00 0{0,1,2} emitted so far
	"wesc":     {types.Typ[types.Bool], BoolS()},       // last byte was an emulation-prevention byte
	"wtight":   {types.Typ[types.Bool], BoolS()},       // no unnecessary escape so far
	"pay":      {bigByteArr, ArrS(BV(8))},              // payload the standard's EBSP decoder recovers from the output
	"plen":     {types.Typ[types.Int], bv64},           // its length
	"wdata":    {bigByteArr, ArrS(BV(8))},              // raw bytes written
	"tr":       {types.Typ[types.Uint64], bv64},        // abstract trace of the chunks written (trApp/chU/chBytes/chEnc), for encoder-equivalence proofs
	// abstract io.Reader
	"rdata": {bigByteArr, ArrS(BV(8))},
	"rlen":  {types.Typ[types.Int], bv64},
	"rpos":  {types.Typ[types.Int], bv64},
	"rz":    {types.Typ[types.Int], bv64},     // zero bytes immediately before rpos, as the standard's EBSP decoder counts them
	"rpay":  {bigByteArr, ArrS(BV(8))},        // payload decoded by the standard's EBSP decoder from rdata[0:rpos)
	"rplen": {types.Typ[types.Int], bv64},
}

var externals = map[string]extModel{}

// externalWrites: write-set patterns of modelled externals (for frame inference of their callers).
var externalWrites = map[string][]string{}

var trustedList = map[string]string{"math.Ceil(math.Log2(float64(u)))": "converted to int lies in 0..64, or is the minimum int64 when u == 0 (floating point is otherwise uninterpreted)"}

func regExt(name, doc string, writes []string, m extModel) {
	externals[name] = m
	externalWrites[name] = writes
	trustedList[name] = doc
}

func (e *Enc) gget(st *State, f string, ref string) string {
	g := ghostFields[f]
	return sel(e.get(st, "H|ghost."+f, g.S), ref)
}

func (e *Enc) gset(st *State, f string, ref string, v string) {
	g := ghostFields[f]
	key := "H|ghost." + f
	e.set(st, key, g.S, sto(e.get(st, key, g.S), ref, v), ref)
}

func ghostKeys(fs ...string) []string {
	var out []string
	for _, f := range fs {
		out = append(out, "H|ghost."+f)
	}
	return out
}

func nilErr() Val { return Val{L: []string{c64(0), c64(0)}} }

func (e *Enc) freshErr(st *State, reach string, rt types.Type) Val {
	v := e.havocVal(rt, "err")
	e.wfAssume(st, reach, v)
	return v
}

func errorType() types.Type { return types.Universe.Lookup("error").Type() }

func init() {
	writerGhost := ghostKeys("wlen", "wz", "wlegal", "wesc", "wtight", "pay", "plen", "wdata", "tr")
	// io.Writer.Write(p) (n int, err error)
	regExt("io.Writer.Write", "abstract writer: on success appends p (n==len(p)); on error appends a prefix; EBSP monitors updated per byte when len(p)==1",
		writerGhost, func(e *Enc, fr *Frame, args []Val, st *State, reach string, pos token.Pos, rt types.Type) Val {
			w, p := args[0].L[1], args[1]
			err := e.freshErr(st, reach, errorType())
			n := e.fresh("n", bv64)
			ok := e.define("wok", BoolS(), eq(err.L[0], c64(0)))
			one := eq(p.sLen(), c64(1))
			b := e.define("wb", BV(8), sel(sel(e.get(st, "M|uint8", BV(8)), p.sRef()), p.sOff()))
			z := e.gget(st, "wz", w)
			legal := e.gget(st, "wlegal", w)
			esc := e.gget(st, "wesc", w)
			tight := e.gget(st, "wtight", w)
			pay := e.gget(st, "pay", w)
			plen := e.gget(st, "plen", w)
			wlen := e.gget(st, "wlen", w)
			wdata := e.gget(st, "wdata", w)
			isEsc := e.define("isesc", BoolS(), and(eq(z, c64(2)), eq(b, bvInt(3, 8))))
			bad := and(eq(z, c64(2)), app("bvule", b, bvInt(2, 8)))
			hv := func(name string, s Sort) string { return e.fresh("gh_"+name, s) }
			simple := and(ok, one)
			e.assume(imp(reach, and(imp(ok, eq(n, p.sLen())), imp(not(ok), and(app("bvsle", c64(0), n), app("bvsle", n, p.sLen()))))))
			e.gset(st, "wlen", w, ite(ok, bvadd(wlen, p.sLen()), hv("wlen", bv64)))
			e.gset(st, "tr", w, ite(ok, e.trApp(e.gget(st, "tr", w), e.chBytes(p)), hv("tr", bv64)))
			e.gset(st, "wz", w, ite(simple, ite(isEsc, c64(0), ite(eq(b, bvInt(0, 8)), ite(eq(z, c64(2)), c64(2), bvadd(z, c64(1))), c64(0))), hv("wz", bv64)))
			e.gset(st, "wlegal", w, ite(simple, and(legal, not(bad)), hv("wlegal", BoolS())))
			e.gset(st, "wesc", w, ite(simple, isEsc, hv("wesc", BoolS())))
			e.gset(st, "wtight", w, ite(simple, and(tight, not(and(esc, app("bvugt", b, bvInt(3, 8))))), hv("wtight", BoolS())))
			e.gset(st, "pay", w, ite(simple, ite(isEsc, pay, sto(pay, plen, b)), hv("pay", ArrS(BV(8)))))
			e.gset(st, "plen", w, ite(simple, ite(isEsc, plen, bvadd(plen, c64(1))), hv("plen", bv64)))
			e.gset(st, "wdata", w, ite(simple, sto(wdata, wlen, b), hv("wdata", ArrS(BV(8)))))
			// fewer than 2^56 bytes are ever written to one writer
			big56 := bvLit(bigPow2(56), 64)
			e.assume(imp(reach, and(app("bvsle", c64(0), e.gget(st, "plen", w)), app("bvsle", e.gget(st, "plen", w), e.gget(st, "wlen", w)), app("bvsle", c64(0), e.gget(st, "wlen", w)), app("bvsle", e.gget(st, "wlen", w), big56))))
			return Val{T: rt, L: []string{n, err.L[0], err.L[1]}}
		})

	// encoding/binary.Write(w, order, data) error  -- fixed-size integers only
	regExt("encoding/binary.Write", "binary.Write of a fixed-size integer: big-endian bytes appended to the abstract writer or error",
		append(writerGhost, "$alloc"), func(e *Enc, fr *Frame, args []Val, st *State, reach string, pos token.Pos, rt types.Type) Val {
			w := args[0].L[1]
			err := e.freshErr(st, reach, errorType())
			ok := eq(err.L[0], c64(0))
			data := args[2]
			var width int
			var term string
			if bx, found := e.boxed[data.L[1]]; found && bx.Loc == nil && len(bx.L) == 1 && isInt(bx.T) {
				width = widthOf(bx.T)
				term = bx.L[0]
			}
			hv := func(name string, s Sort) string { return e.fresh("gh_"+name, s) }
			if width == 8 {
				// single byte: same monitor updates as Write of one byte
				z := e.gget(st, "wz", w)
				legal := e.gget(st, "wlegal", w)
				esc := e.gget(st, "wesc", w)
				tight := e.gget(st, "wtight", w)
				pay := e.gget(st, "pay", w)
				plen := e.gget(st, "plen", w)
				wlen := e.gget(st, "wlen", w)
				wdata := e.gget(st, "wdata", w)
				b := term
				isEsc := and(eq(z, c64(2)), eq(b, bvInt(3, 8)))
				bad := and(eq(z, c64(2)), app("bvule", b, bvInt(2, 8)))
				e.gset(st, "wlen", w, ite(ok, bvadd(wlen, c64(1)), hv("wlen", bv64)))
				e.gset(st, "wz", w, ite(ok, ite(isEsc, c64(0), ite(eq(b, bvInt(0, 8)), ite(eq(z, c64(2)), c64(2), bvadd(z, c64(1))), c64(0))), hv("wz", bv64)))
				e.gset(st, "wlegal", w, ite(ok, and(legal, not(bad)), hv("wlegal", BoolS())))
				e.gset(st, "wesc", w, ite(ok, isEsc, hv("wesc", BoolS())))
				e.gset(st, "wtight", w, ite(ok, and(tight, not(and(esc, app("bvugt", b, bvInt(3, 8))))), hv("wtight", BoolS())))
				e.gset(st, "pay", w, ite(ok, ite(isEsc, pay, sto(pay, plen, b)), hv("pay", ArrS(BV(8)))))
				e.gset(st, "plen", w, ite(ok, ite(isEsc, plen, bvadd(plen, c64(1))), hv("plen", bv64)))
				e.gset(st, "wdata", w, ite(ok, sto(wdata, wlen, b), hv("wdata", ArrS(BV(8)))))
			} else {
				wlen0 := e.gget(st, "wlen", w)
				for _, f := range []string{"wlen", "wz", "wlegal", "wesc", "wtight", "pay", "plen", "wdata"} {
					e.gset(st, f, w, hv(f, ghostFields[f].S))
				}
				if width > 0 {
					e.gset(st, "wlen", w, ite(ok, bvadd(wlen0, c64(int64(width/8))), hv("wlen", bv64)))
					e.note("binary.Write of %d-bit value: only length and trace chunk are modelled", width)
				}
			}
			if width > 0 {
				e.gset(st, "tr", w, ite(ok, e.trApp(e.gget(st, "tr", w), e.chU(width, resize(term, width, 64, false))), hv("tr", bv64)))
			} else {
				e.gset(st, "tr", w, hv("tr", bv64))
			}
			return err
		})

	// encoding/binary.Read(r, order, data) error -- pointer to fixed-size unsigned integer
	regExt("encoding/binary.Read", "binary.Read into *uintN: next N/8 bytes of the abstract reader big-endian, or error at end of data (nothing consumed on error for N==8)",
		append(ghostKeys("rpos", "rz", "rpay", "rplen"), "cell:uint8", "cell:uint16", "cell:uint32", "cell:uint64", "$alloc"), func(e *Enc, fr *Frame, args []Val, st *State, reach string, pos token.Pos, rt types.Type) Val {
			r := args[0].L[1]
			err := e.freshErr(st, reach, errorType())
			data := args[2]
			rpos := e.gget(st, "rpos", r)
			rlen := e.gget(st, "rlen", r)
			rdata := e.gget(st, "rdata", r)
			e.assume(imp(reach, and(app("bvsle", c64(0), rpos), app("bvsle", rpos, rlen), app("bvsle", rlen, c64(maxLen)))))
			var tgt *Loc
			var width int
			if bx, found := e.boxed[data.L[1]]; found && bx.Loc != nil && isInt(bx.Loc.T) {
				tgt, width = bx.Loc, widthOf(bx.Loc.T)
			} else if id, ok := constInt(data.L[0]); ok {
				if t := e.ctx.typeByID(int(id)); t != nil && isPtr(t) && isInt(derefT(t)) {
					width = widthOf(derefT(t))
					tgt = &Loc{Kind: 'c', Base: "C|" + typeKey(derefT(t)), Ref: data.L[1], T: derefT(t)}
				}
			}
			if tgt == nil {
				e.note("binary.Read into unmodelled data type: target havocked")
				e.havocPatterns(st, map[string]bool{"cell:uint8": true, "cell:uint16": true, "cell:uint32": true, "cell:uint64": true})
				e.gset(st, "rpos", r, e.fresh("rpos", bv64))
				return err
			}
			nb := int64(width / 8)
			enough := e.define("enough", BoolS(), app("bvsle", bvadd(rpos, c64(nb)), rlen))
			e.assume(imp(reach, eq(eq(err.L[0], c64(0)), enough)))
			val := ""
			for i := int64(0); i < nb; i++ {
				b := sel(rdata, bvadd(rpos, c64(i)))
				if val == "" {
					val = b
				} else {
					val = app("concat", val, b)
				}
			}
			old := e.load(st, tgt)
			e.store(st, tgt, Val{T: tgt.T, L: []string{ite(enough, val, old.L[0])}})
			newPos := bvadd(rpos, c64(nb))
			if nb == 1 {
				// EBSP decoder monitors (ITU-T H.264 7.4.1): 03 after two zero bytes is dropped, everything else is payload
				rz := e.gget(st, "rz", r)
				rpay := e.gget(st, "rpay", r)
				rplen := e.gget(st, "rplen", r)
				b := e.define("rb", BV(8), sel(rdata, rpos))
				isEsc := and(eq(rz, c64(2)), eq(b, bvInt(3, 8)))
				e.declDecoderFns()
				// the monitors are functions of the consumed prefix: rz == RZ(rdata, rpos) etc. (definition of the ghost state)
				e.assume(imp(reach, and(eq(rz, app("RZ", rdata, rpos)), eq(rplen, app("RPLEN", rdata, rpos)), eq(rpay, app("RPAY", rdata, rpos)))))
				e.gset(st, "rz", r, ite(enough, ite(isEsc, c64(0), ite(eq(b, bvInt(0, 8)), bvadd(rz, c64(1)), c64(0))), rz))
				e.gset(st, "rpay", r, ite(and(enough, not(isEsc)), sto(rpay, rplen, b), rpay))
				e.gset(st, "rplen", r, ite(and(enough, not(isEsc)), bvadd(rplen, c64(1)), rplen))
				np := ite(enough, newPos, rpos)
				e.assume(imp(reach, and(eq(e.gget(st, "rz", r), app("RZ", rdata, np)), eq(e.gget(st, "rplen", r), app("RPLEN", rdata, np)), eq(e.gget(st, "rpay", r), app("RPAY", rdata, np)))))
			} else {
				for _, f := range []string{"rz", "rpay", "rplen"} {
					e.gset(st, f, r, e.fresh("gh_"+f, ghostFields[f].S))
				}
			}
			if nb > 1 {
				// io.ReadFull may consume a partial prefix before failing
				part := e.fresh("rpart", bv64)
				e.assume(imp(reach, and(app("bvsle", rpos, part), app("bvsle", part, rlen))))
				e.gset(st, "rpos", r, ite(enough, newPos, part))
			} else {
				e.gset(st, "rpos", r, ite(enough, newPos, rpos))
			}
			return err
		})

	// (io.ReadSeeker).Seek / (io.Seeker).Seek on the abstract reader
	seek := func(e *Enc, fr *Frame, args []Val, st *State, reach string, pos token.Pos, rt types.Type) Val {
		r := args[0].L[1]
		off, whence := args[1].L[0], args[2].L[0]
		err := e.freshErr(st, reach, errorType())
		rlen := e.gget(st, "rlen", r)
		rdata := e.gget(st, "rdata", r)
		rpos := e.gget(st, "rpos", r)
		e.declDecoderFns()
		ok := e.define("seekok", BoolS(), and(eq(err.L[0], c64(0)), eq(whence, c64(0)), app("bvsle", c64(0), off), app("bvsle", off, rlen)))
		// a seek that reports success with whence 0 and an offset inside the data positions the reader there; anything else leaves an unknown position
		unk := e.fresh("seekpos", bv64)
		e.assume(imp(reach, and(app("bvsle", c64(0), unk), app("bvsle", unk, rlen))))
		np := e.define("seekto", bv64, ite(ok, off, ite(eq(err.L[0], c64(0)), unk, rpos)))
		e.gset(st, "rpos", r, np)
		e.gset(st, "rz", r, app("RZ", rdata, np))
		e.gset(st, "rplen", r, app("RPLEN", rdata, np))
		e.gset(st, "rpay", r, app("RPAY", rdata, np))
		res := e.fresh("seekres", bv64)
		e.assume(imp(and(reach, ok), eq(res, off)))
		return Val{T: rt, L: []string{res, err.L[0], err.L[1]}}
	}
	regExt("io.ReadSeeker.Seek", "abstract seekable reader: Seek(off, io.SeekStart) with 0<=off<=len succeeds or fails; on success position and decoder monitors are those of prefix off", ghostKeys("rpos", "rz", "rpay", "rplen"), seek)
	regExt("io.Seeker.Seek", "see io.ReadSeeker.Seek", ghostKeys("rpos", "rz", "rpay", "rplen"), seek)

	regExt("bytes.NewReader", "returns a fresh reader positioned at 0 over exactly the bytes of b (abstract reader ghost state initialised; decoder monitors at their initial values)",
		append(ghostKeys("rdata", "rlen", "rpos", "rz", "rpay", "rplen"), "$alloc"), func(e *Enc, fr *Frame, args []Val, st *State, reach string, pos token.Pos, rt types.Type) Val {
			b := args[0]
			r := e.newRef(st)
			m := e.get(st, "M|uint8", BV(8))
			data := e.fresh("rdata", ArrS(BV(8)))
			e.assume(imp(reach, fmt.Sprintf("(forall ((j (_ BitVec 64))) (! (=> (and (bvsle (_ bv0 64) j) (bvslt j %s)) (= (select %s j) (select (select %s %s) (bvadd %s j)))) :pattern ((select %s j))))", b.sLen(), data, m, b.sRef(), b.sOff(), data)))
			e.declDecoderFns()
			e.gset(st, "rdata", r, data)
			e.gset(st, "rlen", r, b.sLen())
			e.gset(st, "rpos", r, c64(0))
			e.gset(st, "rz", r, c64(0))
			e.gset(st, "rplen", r, c64(0))
			e.gset(st, "rpay", r, app("RPAY", data, c64(0)))
			e.assume(and(eq(app("RZ", data, c64(0)), c64(0)), eq(app("RPLEN", data, c64(0)), c64(0))))
			return Val{T: rt, L: []string{r}}
		})
	regExt("bytes.NewBuffer", "returns a fresh buffer (as reader: the bytes of buf from position 0; as writer: nothing written yet)",
		append(ghostKeys("rdata", "rlen", "rpos", "rz", "rpay", "rplen", "wlen", "wz", "wesc", "plen"), "$alloc"), func(e *Enc, fr *Frame, args []Val, st *State, reach string, pos token.Pos, rt types.Type) Val {
			b := args[0]
			r := e.newRef(st)
			m := e.get(st, "M|uint8", BV(8))
			data := e.fresh("rdata", ArrS(BV(8)))
			e.assume(imp(reach, fmt.Sprintf("(forall ((j (_ BitVec 64))) (! (=> (and (bvsle (_ bv0 64) j) (bvslt j %s)) (= (select %s j) (select (select %s %s) (bvadd %s j)))) :pattern ((select %s j))))", b.sLen(), data, m, b.sRef(), b.sOff(), data)))
			e.declDecoderFns()
			e.gset(st, "rdata", r, data)
			e.gset(st, "rlen", r, b.sLen())
			e.gset(st, "rpos", r, c64(0))
			e.gset(st, "rz", r, c64(0))
			e.gset(st, "rplen", r, c64(0))
			e.gset(st, "rpay", r, app("RPAY", data, c64(0)))
			e.assume(and(eq(app("RZ", data, c64(0)), c64(0)), eq(app("RPLEN", data, c64(0)), c64(0))))
			e.gset(st, "wlen", r, c64(0))
			e.gset(st, "wz", r, c64(0))
			e.gset(st, "wesc", r, "false")
			e.gset(st, "plen", r, c64(0))
			return Val{T: rt, L: []string{r}}
		})
	regExt("io.ReadAll", "returns the remaining bytes of the abstract reader (fresh slice of length rlen-rpos) or an error", append(ghostKeys("rpos", "rz", "rpay", "rplen"), "$alloc", "elem:uint8"),
		func(e *Enc, fr *Frame, args []Val, st *State, reach string, pos token.Pos, rt types.Type) Val {
			r := args[0].L[1]
			err := e.freshErr(st, reach, errorType())
			rpos := e.gget(st, "rpos", r)
			rlen := e.gget(st, "rlen", r)
			ref := e.newRef(st)
			n := e.fresh("n", bv64)
			e.assume(imp(reach, and(app("bvsle", c64(0), n), app("bvsle", n, c64(maxLen)), imp(and(eq(err.L[0], c64(0)), app("bvsle", c64(0), rpos), app("bvsle", rpos, rlen)), eq(n, app("bvsub", rlen, rpos))))))
			m := e.get(st, "M|uint8", BV(8))
			e.set(st, "M|uint8", BV(8), sto(m, ref, e.fresh("readall", ArrS(BV(8)))), ref)
			for _, f := range []string{"rpos", "rz", "rpay", "rplen"} {
				e.gset(st, f, r, e.fresh("gh_"+f, ghostFields[f].S))
			}
			return Val{T: rt, L: []string{ref, c64(0), n, n, err.L[0], err.L[1]}}
		})
	regExt("io.ReadFull", "fills buf with the next len(buf) bytes of the abstract reader and returns (len(buf), nil), or returns an error having consumed fewer",
		append(ghostKeys("rpos", "rz", "rpay", "rplen"), "elem:uint8"), func(e *Enc, fr *Frame, args []Val, st *State, reach string, pos token.Pos, rt types.Type) Val {
			r, buf := args[0].L[1], args[1]
			err := e.freshErr(st, reach, errorType())
			rpos := e.gget(st, "rpos", r)
			rlen := e.gget(st, "rlen", r)
			rdata := e.gget(st, "rdata", r)
			ok := e.define("rfok", BoolS(), eq(err.L[0], c64(0)))
			e.assume(imp(reach, and(app("bvsle", c64(0), rpos), app("bvsle", rpos, rlen), app("bvsle", rlen, c64(maxLen)))))
			e.assume(imp(reach, imp(ok, app("bvsle", bvadd(rpos, buf.sLen()), rlen))))
			m := e.get(st, "M|uint8", BV(8))
			inner := e.fresh("rfd", ArrS(BV(8)))
			e.assume(imp(and(reach, ok), fmt.Sprintf("(forall ((j (_ BitVec 64))) (! (ite (and (bvsle %[1]s j) (bvslt j (bvadd %[1]s %[2]s))) (= (select %[3]s j) (select %[4]s (bvadd %[5]s (bvsub j %[1]s)))) (= (select %[3]s j) (select (select %[6]s %[7]s) j))) :pattern ((select %[3]s j))))", buf.sOff(), buf.sLen(), inner, rdata, rpos, m, buf.sRef())))
			e.pendLo, e.pendHi = buf.sOff(), bvadd(buf.sOff(), buf.sLen())
			e.set(st, "M|uint8", BV(8), sto(m, buf.sRef(), inner), buf.sRef())
			e.pendLo, e.pendHi = "", ""
			part := e.fresh("rfpos", bv64)
			e.assume(imp(reach, and(app("bvsle", rpos, part), app("bvsle", part, rlen))))
			e.gset(st, "rpos", r, ite(ok, bvadd(rpos, buf.sLen()), part))
			for _, f := range []string{"rz", "rpay", "rplen"} {
				e.gset(st, f, r, e.fresh("gh_"+f, ghostFields[f].S))
			}
			n := e.fresh("rfn", bv64)
			e.assume(imp(reach, and(imp(ok, eq(n, buf.sLen())), app("bvsle", c64(0), n), app("bvsle", n, buf.sLen()))))
			return Val{T: rt, L: []string{n, err.L[0], err.L[1]}}
		})
	regExt("encoding/hex.EncodeToString", "returns some string of length 2*len(src)", []string{"$alloc"},
		func(e *Enc, fr *Frame, args []Val, st *State, reach string, pos token.Pos, rt types.Type) Val {
			r := e.havocVal(rt, "hex")
			e.wfAssume(st, reach, r)
			e.assume(imp(reach, eq(r.sLen(), bvadd(args[0].sLen(), args[0].sLen()))))
			return r
		})

	for _, name := range []string{"fmt.Errorf", "errors.New"} {
		nm := name
		regExt(nm, "returns a non-nil error; no effect on modelled state", []string{"$alloc"},
			func(e *Enc, fr *Frame, args []Val, st *State, reach string, pos token.Pos, rt types.Type) Val {
				r := e.newRef(st)
				return Val{T: rt, L: []string{e.typeID(types.NewPointer(types.Typ[types.Invalid])), r}}
			})
	}
	for _, name := range []string{"fmt.Sprintf", "fmt.Sprint", "fmt.Sprintln"} {
		regExt(name, "returns some string; no effect on modelled state", []string{"$alloc"},
			func(e *Enc, fr *Frame, args []Val, st *State, reach string, pos token.Pos, rt types.Type) Val {
				r := e.havocVal(rt, "str")
				e.wfAssume(st, reach, r)
				return r
			})
	}
	for _, name := range []string{"fmt.Fprintf", "fmt.Fprintln", "fmt.Fprint", "fmt.Printf", "fmt.Println", "fmt.Print"} {
		regExt(name, "formatted output: abstract writer ghost state havocked; no other effect", append(append([]string{}, writerGhost...), "$alloc"),
			func(e *Enc, fr *Frame, args []Val, st *State, reach string, pos token.Pos, rt types.Type) Val {
				e.havocPatterns(st, map[string]bool{"H|ghost.wlen": true, "H|ghost.wz": true, "H|ghost.wlegal": true, "H|ghost.wesc": true, "H|ghost.wtight": true, "H|ghost.pay": true, "H|ghost.plen": true, "H|ghost.wdata": true})
				if rt == nil {
					return Val{}
				}
				r := e.havocVal(rt, "fpr")
				e.wfAssume(st, reach, r)
				return r
			})
	}
	be := func(name string, nbytes int, put bool) {
		key := "encoding/binary.(bigEndian)." + name
		if put {
			regExt(key, fmt.Sprintf("stores %d big-endian bytes at b[0:%d]; panics if len(b) < %d", nbytes, nbytes, nbytes), []string{"elem:uint8"},
				func(e *Enc, fr *Frame, args []Val, st *State, reach string, pos token.Pos, rt types.Type) Val {
					b, v := args[1], args[2]
					e.obligAndAssume("idx", "binary.BigEndian."+name+":"+e.exprText(pos), reach, app("bvsle", c64(int64(nbytes)), b.sLen()), pos, safetyTag, "buffer too short for "+name)
					m := e.get(st, "M|uint8", BV(8))
					inner := sel(m, b.sRef())
					w := nbytes * 8
					for i := 0; i < nbytes; i++ {
						hi := w - 8*i - 1
						inner = sto(inner, bvadd(b.sOff(), c64(int64(i))), fmt.Sprintf("((_ extract %d %d) %s)", hi, hi-7, v.L[0]))
					}
					e.pendLo, e.pendHi = b.sOff(), bvadd(b.sOff(), c64(int64(nbytes)))
					e.set(st, "M|uint8", BV(8), sto(m, b.sRef(), inner), b.sRef())
					e.pendLo, e.pendHi = "", ""
					return Val{}
				})
		} else {
			regExt(key, fmt.Sprintf("loads %d big-endian bytes from b[0:%d]; panics if len(b) < %d", nbytes, nbytes, nbytes), nil,
				func(e *Enc, fr *Frame, args []Val, st *State, reach string, pos token.Pos, rt types.Type) Val {
					b := args[1]
					e.obligAndAssume("idx", "binary.BigEndian."+name+":"+e.exprText(pos), reach, app("bvsle", c64(int64(nbytes)), b.sLen()), pos, safetyTag, "buffer too short for "+name)
					m := e.get(st, "M|uint8", BV(8))
					val := ""
					for i := 0; i < nbytes; i++ {
						x := sel(sel(m, b.sRef()), bvadd(b.sOff(), c64(int64(i))))
						if val == "" {
							val = x
						} else {
							val = app("concat", val, x)
						}
					}
					return Val{T: rt, L: []string{e.define("be", BV(nbytes*8), val)}}
				})
		}
	}
	be("Uint16", 2, false)
	be("Uint32", 4, false)
	be("Uint64", 8, false)
	be("PutUint16", 2, true)
	be("PutUint32", 4, true)
	be("PutUint64", 8, true)
}

var usedExternals = map[string]bool{}
var usedExtMu sync.Mutex

func noteExternal(k string) {
	usedExtMu.Lock()
	usedExternals[k] = true
	usedExtMu.Unlock()
}

func (e *Enc) declDecoderFns() {
	if e.declSeen["RZ"] {
		return
	}
	e.declSeen["RZ"] = true
	e.decl = append(e.decl,
		"(declare-fun RZ ((Array (_ BitVec 64) (_ BitVec 8)) (_ BitVec 64)) (_ BitVec 64))",
		"(declare-fun RPLEN ((Array (_ BitVec 64) (_ BitVec 8)) (_ BitVec 64)) (_ BitVec 64))",
		"(declare-fun RPAY ((Array (_ BitVec 64) (_ BitVec 8)) (_ BitVec 64)) (Array (_ BitVec 64) (_ BitVec 8)))")
}

package main

// Whole-program frame analyses for C20 (hidden mutable state) and the registry enumeration for C03.

import (
	"regexp"
	"fmt"
	"go/ast"
	"go/types"
	"sort"
	"strings"

	"golang.org/x/tools/go/ssa"
)

// globalDerived: is address/value v derived from package-level state (the global itself, or a pointer/map/slice loaded from it)?
func globalDerived(v ssa.Value, seen map[ssa.Value]bool) *ssa.Global {
	if seen[v] {
		return nil
	}
	seen[v] = true
	switch x := v.(type) {
	case *ssa.Global:
		return x
	case *ssa.FieldAddr:
		return globalDerived(x.X, seen)
	case *ssa.IndexAddr:
		return globalDerived(x.X, seen)
	case *ssa.Field:
		return globalDerived(x.X, seen)
	case *ssa.Index:
		return globalDerived(x.X, seen)
	case *ssa.Slice:
		return globalDerived(x.X, seen)
	case *ssa.ChangeType:
		return globalDerived(x.X, seen)
	case *ssa.Convert:
		return globalDerived(x.X, seen)
	case *ssa.UnOp:
		return globalDerived(x.X, seen)
	case *ssa.Lookup:
		return globalDerived(x.X, seen)
	case *ssa.Phi:
		for _, e := range x.Edges {
			if g := globalDerived(e, seen); g != nil {
				return g
			}
		}
	}
	return nil
}

func allFuncsOf(ctx *Ctx, pkgs []string) []*ssa.Function {
	var out []*ssa.Function
	want := map[string]bool{}
	for _, p := range pkgs {
		want[p] = true
	}
	var add func(f *ssa.Function)
	add = func(f *ssa.Function) {
		out = append(out, f)
		for _, a := range f.AnonFuncs {
			add(a)
		}
	}
	for _, k := range ctx.sortedFuncKeys() {
		f := ctx.funcs[k]
		if f.Pkg != nil && want[f.Pkg.Pkg.Name()] {
			add(f)
		}
	}
	// package initialisers are the allowed place for global stores; still listed
	return out
}

var libPkgs = []string{"mp4", "avc", "hevc", "sei", "aac", "av1", "bits"}

// extraGlobals: F1 (no store to package-level state outside init and the registry mutators) and
// F2 (exported functions do not write through []byte parameters, except the documented in-place transformers).
func extraGlobals(ctx *Ctx, id string, ev map[string]interface{}, report func(string, map[string]interface{}, bool), known map[string]knownFinding) {
	allowedF1 := map[string]bool{}
	for _, k := range []string{"mp4.SetBoxDecoder", "mp4.RemoveBoxDecoder"} {
		allowedF1[k] = true
	}
	nObl, nOK := 0, 0
	var samples []string
	fns := allFuncsOf(ctx, libPkgs)
	for _, f := range fns {
		if f.Name() == "init" || strings.HasPrefix(f.Name(), "init#") {
			continue
		}
		short := shortKey(ctx.funcKey(f))
		for _, b := range f.Blocks {
			for _, in := range b.Instrs {
				var addr ssa.Value
				switch x := in.(type) {
				case *ssa.Store:
					addr = x.Addr
				case *ssa.MapUpdate:
					addr = x.Map
				default:
					continue
				}
				nObl++
				g := globalDerived(addr, map[ssa.Value]bool{})
				if g == nil {
					nOK++
					continue
				}
				pos := ctx.fset.Position(in.Pos())
				base := short
				if i := strings.Index(base, "$"); i >= 0 {
					base = base[:i]
				}
				if allowedF1[base] {
					nOK++
					continue
				}
				name := fmt.Sprintf("%s#frame:F1@%s.%s", ctx.funcKey(f), g.Pkg.Pkg.Name(), g.Name())
				if kf, ok := known[name]; ok {
					fmt.Printf("KNOWN-FINDING: property=%s %s %s\n", id, name, kf.What)
					continue
				}
				report(name, map[string]interface{}{"kind": "frame:F1", "function": ctx.funcKey(f), "position": fmt.Sprintf("%s:%d", pos.Filename, pos.Line),
					"what": "store to package-level state " + g.Pkg.Pkg.Name() + "." + g.Name() + " outside init/SetBoxDecoder/RemoveBoxDecoder: hidden mutable state shared by all goroutines"}, false)
			}
		}
		if len(samples) < 6 {
			samples = append(samples, short+": no store to package-level state")
		}
	}
	// F2
	wp := newParamWrites(ctx)
	inPlace := map[string]string{}
	for k, v := range inPlaceTransformers {
		inPlace[k] = v
	}
	var f2 []string
	for _, f := range fns {
		if f.Parent() != nil || f.Object() == nil || !f.Object().Exported() {
			continue
		}
		short := shortKey(ctx.funcKey(f))
		for i, p := range f.Params {
			if !isByteSliceLike(p.Type()) {
				continue
			}
			nObl++
			if !wp.writes(f, i) {
				nOK++
				if len(f2) < 8 {
					f2 = append(f2, fmt.Sprintf("%s: parameter %s is never written through", short, p.Name()))
				}
				continue
			}
			key := short + ":" + p.Name()
			if why, ok := inPlace[key]; ok {
				nOK++
				_ = why
				continue
			}
			name := fmt.Sprintf("%s#frame:F2@%s", ctx.funcKey(f), p.Name())
			if kf, ok := known[name]; ok {
				fmt.Printf("KNOWN-FINDING: property=%s %s %s\n", id, name, kf.What)
				continue
			}
			report(name, map[string]interface{}{"kind": "frame:F2", "function": ctx.funcKey(f),
				"what": "exported function may write through its []byte parameter " + p.Name() + " (directly or via a callee); inputs shared read-only between goroutines would race", "chain": wp.why(f, i)}, false)
		}
	}
	ev["extra_obligations"] = intOf(ev["extra_obligations"]) + nObl
	ev["extra_discharged"] = intOf(ev["extra_discharged"]) + nOK
	ev["frame_analysis"] = map[string]interface{}{"functions_scanned": len(fns), "F1_samples": samples, "F2_samples": f2, "in_place_transformers_allowed": inPlace,
		"F1": "no Store/MapUpdate whose address derives (field/index/slice/phi/load chain) from a package-level variable, outside init, mp4.SetBoxDecoder, mp4.RemoveBoxDecoder",
		"F2": "no exported function writes (Store through element address, copy/append destination, or callee doing so) through a []byte parameter, except the listed in-place transformers"}
}

func isByteSliceLike(t types.Type) bool {
	s, ok := t.Underlying().(*types.Slice)
	if !ok {
		return false
	}
	b, ok := s.Elem().Underlying().(*types.Basic)
	return ok && b.Kind() == types.Uint8
}

// documented in-place transformers: "<pkg.Func>:<param>" -> why
var inPlaceTransformers = map[string]string{
	"avc.ConvertByteStreamToNaluSample:stream": "documented in-place conversion when all start codes are 4 bytes (the caller hands over the buffer)",
	"avc.ConvertSampleToByteStream:sample":     "documented in-place conversion of length fields to start codes",
	"bits.(*FixedSliceReader).LookAhead:data":  "output buffer supplied by the caller",
	"mp4.(*File).CopySampleData:workSpace":     "scratch buffer supplied by the caller",
	"mp4.CryptSampleCenc:sample":               "documented in-place en/decryption of the sample buffer",
	"mp4.DecryptSampleCbcs:sample":             "documented in-place decryption of the sample buffer",
	"mp4.EncryptSampleCbcs:sample":             "documented in-place encryption of the sample buffer",
}

type paramWrites struct {
	ctx  *Ctx
	memo map[*ssa.Function]map[int]string
	busy map[*ssa.Function]bool
}

func newParamWrites(ctx *Ctx) *paramWrites {
	return &paramWrites{ctx: ctx, memo: map[*ssa.Function]map[int]string{}, busy: map[*ssa.Function]bool{}}
}

func (w *paramWrites) writes(f *ssa.Function, i int) bool { return w.summary(f)[i] != "" }
func (w *paramWrites) why(f *ssa.Function, i int) string  { return w.summary(f)[i] }

// derivedFromParam: which parameter (index) a value's backing memory derives from, or -1.
func derivedFromParam(v ssa.Value, f *ssa.Function, seen map[ssa.Value]bool) int {
	if seen[v] {
		return -1
	}
	seen[v] = true
	switch x := v.(type) {
	case *ssa.Parameter:
		for i, p := range f.Params {
			if p == x {
				return i
			}
		}
	case *ssa.Slice:
		return derivedFromParam(x.X, f, seen)
	case *ssa.IndexAddr:
		return derivedFromParam(x.X, f, seen)
	case *ssa.ChangeType:
		return derivedFromParam(x.X, f, seen)
	case *ssa.Phi:
		for _, e := range x.Edges {
			if r := derivedFromParam(e, f, seen); r >= 0 {
				return r
			}
		}
	}
	return -1
}

func (w *paramWrites) summary(f *ssa.Function) map[int]string {
	if m, ok := w.memo[f]; ok {
		return m
	}
	if w.busy[f] {
		return map[int]string{}
	}
	w.busy[f] = true
	m := map[int]string{}
	mark := func(v ssa.Value, why string) {
		if i := derivedFromParam(v, f, map[ssa.Value]bool{}); i >= 0 && m[i] == "" {
			m[i] = why
		}
	}
	for _, b := range f.Blocks {
		for _, in := range b.Instrs {
			switch x := in.(type) {
			case *ssa.Store:
				if _, ok := x.Addr.(*ssa.IndexAddr); ok {
					mark(x.Addr, "store at "+w.ctx.fset.Position(x.Pos()).String())
				}
			case ssa.CallInstruction:
				cc := x.Common()
				if bi, ok := cc.Value.(*ssa.Builtin); ok {
					if bi.Name() == "copy" {
						mark(cc.Args[0], "copy destination at "+w.ctx.fset.Position(x.Pos()).String())
					}
					continue
				}
				callee := cc.StaticCallee()
				if callee == nil {
					continue
				}
				key := w.ctx.funcKey(callee)
				if strings.HasPrefix(key, "encoding/binary.(bigEndian).Put") {
					mark(cc.Args[1], "binary.BigEndian.Put* at "+w.ctx.fset.Position(x.Pos()).String())
					continue
				}
				if key == "(crypto/cipher.Stream).XORKeyStream" {
					continue
				}
				if callee.Blocks == nil || !w.ctx.isRepoFunc(callee) {
					continue
				}
				cs := w.summary(callee)
				for j, a := range cc.Args {
					if why := cs[j]; why != "" {
						mark(a, "passed to "+shortKey(key)+" ("+why+")")
					}
				}
			}
		}
	}
	// interface calls into crypto (XORKeyStream(dst, src), CryptBlocks(dst, src)) write dst
	for _, b := range f.Blocks {
		for _, in := range b.Instrs {
			if ci, ok := in.(ssa.CallInstruction); ok && ci.Common().IsInvoke() {
				mn := ci.Common().Method.Name()
				if (mn == "XORKeyStream" || mn == "CryptBlocks") && len(ci.Common().Args) > 0 {
					mark(ci.Common().Args[0], mn+" destination at "+w.ctx.fset.Position(in.Pos()).String())
				}
				if mn == "Read" && len(ci.Common().Args) > 0 {
					mark(ci.Common().Args[0], "Read buffer at "+w.ctx.fset.Position(in.Pos()).String())
				}
			}
		}
	}
	delete(w.busy, f)
	w.memo[f] = m
	return m
}

// extraRegistry (C03a): the two decoder registries have the same keys and pair DecodeX with DecodeXSR.
func extraRegistry(ctx *Ctx, id string, ev map[string]interface{}, report func(string, map[string]interface{}, bool), known map[string]knownFinding) {
	p := ctx.pkgs["github.com/Eyevinn/mp4ff/mp4"]
	if p == nil {
		report("registry:load", map[string]interface{}{"what": "package mp4 not loaded"}, false)
		return
	}
	read := func(varName string) map[string]string {
		out := map[string]string{}
		for _, f := range p.Syntax {
			ast.Inspect(f, func(n ast.Node) bool {
				as, ok := n.(*ast.AssignStmt)
				if !ok || len(as.Lhs) != 1 || len(as.Rhs) != 1 {
					return true
				}
				id, ok := as.Lhs[0].(*ast.Ident)
				if !ok || id.Name != varName {
					return true
				}
				cl, ok := as.Rhs[0].(*ast.CompositeLit)
				if !ok {
					return true
				}
				for _, el := range cl.Elts {
					kv, ok := el.(*ast.KeyValueExpr)
					if !ok {
						continue
					}
					k, ok1 := kv.Key.(*ast.BasicLit)
					v, ok2 := kv.Value.(*ast.Ident)
					if ok1 && ok2 {
						out[strings.Trim(k.Value, "\"")] = v.Name
					}
				}
				return true
			})
		}
		return out
	}
	dec, decSR := read("decoders"), read("decodersSR")
	nObl, nOK := 0, 0
	keys := map[string]bool{}
	for k := range dec {
		keys[k] = true
	}
	for k := range decSR {
		keys[k] = true
	}
	var ks []string
	for k := range keys {
		ks = append(ks, k)
	}
	sort.Strings(ks)
	var samples []string
	for _, k := range ks {
		nObl++
		a, okA := dec[k]
		b, okB := decSR[k]
		good := okA && okB && a+"SR" == b
		name := fmt.Sprintf("github.com/Eyevinn/mp4ff/mp4.registry#pair@%s", k)
		if good {
			nOK++
			if len(samples) < 5 {
				samples = append(samples, fmt.Sprintf("%s: %s / %s", k, a, b))
			}
			continue
		}
		if kf, ok := known[name]; ok {
			fmt.Printf("KNOWN-FINDING: property=%s %s %s\n", id, name, kf.What)
			continue
		}
		report(name, map[string]interface{}{"kind": "registry", "box": k, "decoders": a, "decodersSR": b,
			"what": "box type registered in only one decoder registry, or paired with a decoder that is not its SR twin: one decode path accepts input the other does not"}, true)
	}
	if len(ks) < 50 {
		report("registry:size", map[string]interface{}{"what": fmt.Sprintf("only %d registry keys found", len(ks))}, false)
	}
	ev["extra_obligations"] = intOf(ev["extra_obligations"]) + nObl
	ev["extra_discharged"] = intOf(ev["extra_discharged"]) + nOK
	ev["registry"] = map[string]interface{}{"keys": len(ks), "samples": samples}
}


// extraAbsPure: static side conditions of the abstract pure methods (no effects, no reads of exempt heap, determinism).
func extraAbsPure(ctx *Ctx, id string, ev map[string]interface{}, report func(string, map[string]interface{}, bool), known map[string]knownFinding) {
	checked, problems := ctx.checkAbsMethods()
	for _, p := range problems {
		name := "absmethod#pure@" + p
		if kf, ok := known[name]; ok {
			fmt.Printf("KNOWN-FINDING: property=%s %s %s\n", id, name, kf.What)
			continue
		}
		report(name, map[string]interface{}{"kind": "absmethod", "what": "an implementation of an abstract pure method (Size/Type/GetChildren ...) has an effect or reads writer/byte state, so treating it as a function of the box is not justified: " + p}, true)
	}
	ev["extra_obligations"] = intOf(ev["extra_obligations"]) + len(checked)
	ev["extra_discharged"] = intOf(ev["extra_discharged"]) + len(checked) - len(problems)
	ev["absmethods"] = map[string]interface{}{"implementations_checked": len(checked), "problems": problems}
}

// extraPairs: which types with both Encode(w) and EncodeSW(sw) have a common C03 trace specification (the same tagged
// ensures clause applied to both methods by one schema), are canonical wrappers, or are not covered.
func extraPairs(ctx *Ctx, id string, ev map[string]interface{}, report func(string, map[string]interface{}, bool), known map[string]knownFinding) {
	type pair struct{ enc, encSW *ssa.Function }
	pairs := map[string]*pair{}
	for _, k := range ctx.sortedFuncKeys() {
		fn := ctx.funcs[k]
		if fn.Pkg == nil || fn.Pkg.Pkg.Name() != "mp4" || fn.Signature.Recv() == nil || fn.Synthetic != "" {
			continue
		}
		if fn.Name() != "Encode" && fn.Name() != "EncodeSW" {
			continue
		}
		if fn.Signature.Params().Len() != 1 {
			continue
		}
		pt := typeKeyFull(fn.Signature.Params().At(0).Type())
		tn := typeKey(derefOrSelf(fn.Signature.Recv().Type()))
		if pairs[tn] == nil {
			pairs[tn] = &pair{}
		}
		if fn.Name() == "Encode" && pt == "io.Writer" {
			pairs[tn].enc = fn
		}
		if fn.Name() == "EncodeSW" && strings.HasSuffix(pt, "bits.SliceWriter") {
			pairs[tn].encSW = fn
		}
	}
	tagged := func(fn *ssa.Function) map[string]bool {
		out := map[string]bool{}
		if c := ctx.contractOf(fn); c != nil {
			for _, en := range c.Ensures {
				if contains(en.Tags, "C03") {
					out[en.Text] = true
				}
			}
		}
		return out
	}
	var names []string
	for tn := range pairs {
		names = append(names, tn)
	}
	sort.Strings(names)
	var common, wrappers, uncovered []string
	for _, tn := range names {
		p := pairs[tn]
		if p.enc == nil || p.encSW == nil {
			continue
		}
		a, b := tagged(p.enc), tagged(p.encSW)
		shared := false
		for t := range a {
			if b[t] {
				shared = true
			}
		}
		isWrapper := false
		for t := range a {
			if strings.Contains(t, "trApp(old(ghost(p1).tr), chEnc(p0))") {
				isWrapper = true
			}
		}
		switch {
		case shared:
			common = append(common, tn)
		case isWrapper:
			wrappers = append(wrappers, tn)
		default:
			uncovered = append(uncovered, tn)
		}
	}
	ev["extra_obligations"] = intOf(ev["extra_obligations"]) + len(common) + len(wrappers)
	ev["extra_discharged"] = intOf(ev["extra_discharged"]) + len(common) + len(wrappers)
	ev["encoder_pairs"] = map[string]interface{}{"same_trace_specification_on_both": common, "canonical_wrapper_contract": wrappers, "not_covered": uncovered}
	fmt.Printf("encoder pairs: %d with a common trace specification, %d canonical wrappers, %d not covered %v\n", len(common), len(wrappers), len(uncovered), uncovered)
}


var reBodyFn = regexp.MustCompile(`\.tr == (\w+)\(`)

// extraC01Pairs: for which box types are the slice-reader decoder and EncodeSW both specified by the SAME body-trace function
// (C01-tagged ensures)? Types with only one side specified, or with different functions, are listed separately.
func extraC01Pairs(ctx *Ctx, id string, ev map[string]interface{}, report func(string, map[string]interface{}, bool), known map[string]knownFinding) {
	bodyOf := func(fn *ssa.Function) string {
		c := ctx.contractOf(fn)
		if c == nil {
			return ""
		}
		for _, en := range c.Ensures {
			if contains(en.Tags, "C01") {
				if m := reBodyFn.FindStringSubmatch(en.Text); m != nil {
					return m[1]
				}
			}
		}
		return ""
	}
	dec := map[string]string{} // body function -> decoder
	enc := map[string]string{}
	for _, k := range ctx.sortedFuncKeys() {
		fn := ctx.funcs[k]
		if fn.Pkg == nil || fn.Pkg.Pkg.Name() != "mp4" || fn.Synthetic != "" {
			continue
		}
		b := bodyOf(fn)
		if b == "" {
			continue
		}
		if fn.Signature.Recv() == nil && strings.HasPrefix(fn.Name(), "Decode") {
			dec[b] = fn.Name()
		} else if fn.Signature.Recv() != nil && strings.HasPrefix(fn.Name(), "EncodeSW") {
			enc[b] = typeKey(derefOrSelf(fn.Signature.Recv().Type())) + "." + fn.Name()
		}
	}
	var both, onlyDec, onlyEnc []string
	for b, dn := range dec {
		if en, ok := enc[b]; ok {
			both = append(both, fmt.Sprintf("%s: %s / %s", b, dn, en))
		} else {
			onlyDec = append(onlyDec, fmt.Sprintf("%s: %s", b, dn))
		}
	}
	for b, en := range enc {
		if _, ok := dec[b]; !ok {
			onlyEnc = append(onlyEnc, fmt.Sprintf("%s: %s", b, en))
		}
	}
	sort.Strings(both)
	sort.Strings(onlyDec)
	sort.Strings(onlyEnc)
	ev["extra_obligations"] = intOf(ev["extra_obligations"]) + len(both)
	ev["extra_discharged"] = intOf(ev["extra_discharged"]) + len(both)
	ev["c01_body_trace_pairs"] = map[string]interface{}{"decoder_and_encoder_same_function": both, "decoder_only": onlyDec, "encoder_only": onlyEnc}
	fmt.Printf("C01 body-trace pairs: %d box types with decoder and encoder against the same function, %d decoder-only, %d encoder-only\n", len(both), len(onlyDec), len(onlyEnc))
}

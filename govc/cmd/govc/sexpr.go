package main

// Minimal S-expression handling used to normalise quantified formulas so that array indices under a
// quantifier are the bound variable itself (E-matching cannot invert "offset + k").

import (
	"sort"
	"strings"
)

type sx struct {
	atom string
	kids []*sx
}

func parseSx(s string) *sx {
	pos := 0
	var parse func() *sx
	parse = func() *sx {
		for pos < len(s) && s[pos] == ' ' {
			pos++
		}
		if pos >= len(s) {
			return &sx{atom: ""}
		}
		if s[pos] == '(' {
			pos++
			n := &sx{}
			for {
				for pos < len(s) && s[pos] == ' ' {
					pos++
				}
				if pos >= len(s) {
					break
				}
				if s[pos] == ')' {
					pos++
					break
				}
				n.kids = append(n.kids, parse())
			}
			return n
		}
		st := pos
		for pos < len(s) && s[pos] != ' ' && s[pos] != '(' && s[pos] != ')' {
			pos++
		}
		return &sx{atom: s[st:pos]}
	}
	return parse()
}

func (n *sx) String() string {
	if n.kids == nil && n.atom != "" {
		return n.atom
	}
	var b strings.Builder
	n.write(&b)
	return b.String()
}

func (n *sx) write(b *strings.Builder) {
	if n.kids == nil {
		b.WriteString(n.atom)
		return
	}
	b.WriteByte('(')
	for i, k := range n.kids {
		if i > 0 {
			b.WriteByte(' ')
		}
		k.write(b)
	}
	b.WriteByte(')')
}

func (n *sx) isApp(op string) bool {
	return len(n.kids) > 0 && n.kids[0].kids == nil && n.kids[0].atom == op
}

func (n *sx) mentions(v string) bool {
	if n.kids == nil {
		return n.atom == v
	}
	for _, k := range n.kids {
		if k.mentions(v) {
			return true
		}
	}
	return false
}

// addends flattens nested bvadd.
func addends(n *sx, out *[]*sx) {
	if n.isApp("bvadd") {
		for _, k := range n.kids[1:] {
			addends(k, out)
		}
		return
	}
	*out = append(*out, n)
}

func isZero64(n *sx) bool {
	return n.String() == "(_ bv0 64)"
}

// indexShift: for a select index that is (q + S), return the canonical string of S ("" if the index is not of that shape).
func indexShift(idx *sx, q string) (string, []*sx, bool) {
	var as []*sx
	addends(idx, &as)
	found := -1
	for i, a := range as {
		if a.kids == nil && a.atom == q {
			if found >= 0 {
				return "", nil, false
			}
			found = i
		} else if a.mentions(q) {
			return "", nil, false
		}
	}
	if found < 0 {
		return "", nil, false
	}
	var rest []*sx
	var strs []string
	for i, a := range as {
		if i != found && !isZero64(a) {
			rest = append(rest, a)
			strs = append(strs, a.String())
		}
	}
	sort.Strings(strs)
	return strings.Join(strs, " + "), rest, true
}

func sumOf(rest []*sx) string {
	if len(rest) == 0 {
		return "(_ bv0 64)"
	}
	s := rest[0].String()
	for _, r := range rest[1:] {
		s = "(bvadd " + s + " " + r.String() + ")"
	}
	return s
}

// normaliseQuantBody rewrites body (a Bool term mentioning bound variable q of sort BV64) so that the dominant
// "offset + q" index pattern becomes the bound variable itself: returns the new body (over the same symbol q, now
// denoting q_old + S). The transformation is an equivalence because bit-vector addition of a constant is a bijection.
func normaliseQuantBody(body string, q string) string {
	root := parseSx(body)
	// collect shifts
	count := map[string]int{}
	rests := map[string][]*sx{}
	var walk func(n *sx)
	walk = func(n *sx) {
		if n.kids == nil {
			return
		}
		if n.isApp("select") && len(n.kids) == 3 {
			if s, rest, ok := indexShift(n.kids[2], q); ok && s != "" {
				count[s]++
				rests[s] = rest
			}
		}
		for _, k := range n.kids {
			walk(k)
		}
	}
	walk(root)
	best := ""
	for s, c := range count {
		if best == "" || c > count[best] || (c == count[best] && s < best) {
			best = s
		}
	}
	if best == "" {
		return body
	}
	S := sumOf(rests[best])
	qOld := parseSx("(bvsub " + q + " " + S + ")")
	var rw func(n *sx) *sx
	rw = func(n *sx) *sx {
		if n.kids == nil {
			if n.atom == q {
				return qOld
			}
			return n
		}
		if n.isApp("select") && len(n.kids) == 3 {
			if s, _, ok := indexShift(n.kids[2], q); ok && s == best {
				return &sx{kids: []*sx{n.kids[0], rw(n.kids[1]), {atom: q}}}
			}
		}
		out := &sx{kids: make([]*sx, len(n.kids))}
		for i, k := range n.kids {
			out.kids[i] = rw(k)
		}
		return out
	}
	return rw(root).String()
}

package main

// Sorts, flattened value layout, locations, symbolic state.

import (
	"fmt"
	"go/types"
	"math/big"
	"regexp"
	"sort"
	"strings"
	"sync"
)

// ---------- sorts ----------

type Sort struct {
	K    byte // 'b' Bool, 'v' bit-vector, 'a' array BV64 -> Elem
	W    int
	Elem *Sort
}

func BV(w int) Sort    { return Sort{K: 'v', W: w} }
func BoolS() Sort      { return Sort{K: 'b'} }
func ArrS(e Sort) Sort { return Sort{K: 'a', Elem: &e} }

var bv64 = BV(64)

func (s Sort) String() string {
	switch s.K {
	case 'b':
		return "Bool"
	case 'v':
		return fmt.Sprintf("(_ BitVec %d)", s.W)
	case 'a':
		return "(Array (_ BitVec 64) " + s.Elem.String() + ")"
	}
	return "?"
}

func (s Sort) Eq(o Sort) bool { return s.String() == o.String() }

// zero term of a sort
func (s Sort) Zero() string {
	switch s.K {
	case 'b':
		return "false"
	case 'v':
		return bvLit(big.NewInt(0), s.W)
	case 'a':
		return "((as const " + s.String() + ") " + s.Elem.Zero() + ")"
	}
	return "?"
}

func bvLit(v *big.Int, w int) string {
	m := new(big.Int).Lsh(big.NewInt(1), uint(w))
	x := new(big.Int).Mod(v, m)
	if x.Sign() < 0 {
		x.Add(x, m)
	}
	return fmt.Sprintf("(_ bv%s %d)", x.String(), w)
}

func bvInt(v int64, w int) string { return bvLit(big.NewInt(v), w) }

// ---------- layout ----------

type Leaf struct {
	Path   string
	Sort   Sort
	Signed bool
	Kind   byte // 'i' int, 'b' bool, 'r' ref/pointer-like, 'f' float(opaque), 'A' array value, 'L' len/cap/off component, 'T' iface tag
}

var sizes = types.SizesFor("gc", "amd64")

func intWidth(b *types.Basic) (w int, signed bool, ok bool) {
	switch b.Kind() {
	case types.Int8:
		return 8, true, true
	case types.Int16:
		return 16, true, true
	case types.Int32:
		return 32, true, true
	case types.Int64, types.Int:
		return 64, true, true
	case types.Uint8:
		return 8, false, true
	case types.Uint16:
		return 16, false, true
	case types.Uint32:
		return 32, false, true
	case types.Uint64, types.Uint, types.Uintptr:
		return 64, false, true
	case types.UntypedInt, types.UntypedRune:
		return 64, true, true
	}
	return 0, false, false
}

func isString(t types.Type) bool {
	b, ok := t.Underlying().(*types.Basic)
	return ok && b.Info()&types.IsString != 0
}

func isSliceLike(t types.Type) bool {
	if isString(t) {
		return true
	}
	_, ok := t.Underlying().(*types.Slice)
	return ok
}

func isIface(t types.Type) bool {
	_, ok := t.Underlying().(*types.Interface)
	return ok
}

func isBool(t types.Type) bool {
	b, ok := t.Underlying().(*types.Basic)
	return ok && b.Info()&types.IsBoolean != 0
}

func isInt(t types.Type) bool {
	b, ok := t.Underlying().(*types.Basic)
	return ok && b.Info()&types.IsInteger != 0
}

func isFloat(t types.Type) bool {
	b, ok := t.Underlying().(*types.Basic)
	return ok && (b.Info()&types.IsFloat != 0 || b.Info()&types.IsComplex != 0)
}

func isSigned(t types.Type) bool {
	b, ok := t.Underlying().(*types.Basic)
	if !ok {
		return false
	}
	_, s, _ := intWidth(b)
	return s
}

func widthOf(t types.Type) int {
	b, ok := t.Underlying().(*types.Basic)
	if !ok {
		return 64
	}
	w, _, ok := intWidth(b)
	if !ok {
		return 64
	}
	return w
}

func isPtr(t types.Type) bool {
	_, ok := t.Underlying().(*types.Pointer)
	return ok
}

func derefT(t types.Type) types.Type {
	if p, ok := t.Underlying().(*types.Pointer); ok {
		return p.Elem()
	}
	return nil
}

func elemT(t types.Type) types.Type {
	switch u := t.Underlying().(type) {
	case *types.Slice:
		return u.Elem()
	case *types.Array:
		return u.Elem()
	case *types.Pointer:
		if a, ok := u.Elem().Underlying().(*types.Array); ok {
			return a.Elem()
		}
	case *types.Basic:
		if u.Info()&types.IsString != 0 {
			return types.Typ[types.Uint8]
		}
	}
	return nil
}

var layoutCache sync.Map

var reByte = regexp.MustCompile(`\bbyte\b`)
var reRune = regexp.MustCompile(`\brune\b`)

func canonBasic(s string) string {
	if strings.Contains(s, "byte") {
		s = reByte.ReplaceAllString(s, "uint8")
	}
	if strings.Contains(s, "rune") {
		s = reRune.ReplaceAllString(s, "int32")
	}
	return s
}

func typeKey(t types.Type) string {
	return canonBasic(types.TypeString(t, func(p *types.Package) string { return p.Name() }))
}

func layout(t types.Type) []Leaf {
	k := typeKeyFull(t)
	if l, ok := layoutCache.Load(k); ok {
		return l.([]Leaf)
	}
	l := layout0(t)
	layoutCache.Store(k, l)
	return l
}

func layout0(t types.Type) []Leaf {
	switch u := t.Underlying().(type) {
	case *types.Basic:
		if u.Info()&types.IsBoolean != 0 {
			return []Leaf{{"", BoolS(), false, 'b'}}
		}
		if u.Info()&types.IsString != 0 {
			return []Leaf{{".ref", bv64, false, 'r'}, {".off", bv64, true, 'L'}, {".len", bv64, true, 'L'}}
		}
		if w, s, ok := intWidth(u); ok {
			return []Leaf{{"", BV(w), s, 'i'}}
		}
		if u.Kind() == types.Float32 {
			return []Leaf{{"", BV(32), false, 'f'}}
		}
		if u.Kind() == types.UntypedNil {
			return []Leaf{{"", bv64, false, 'r'}}
		}
		return []Leaf{{"", bv64, false, 'f'}}
	case *types.Pointer, *types.Map, *types.Chan, *types.Signature:
		return []Leaf{{"", bv64, false, 'r'}}
	case *types.Slice:
		return []Leaf{{".ref", bv64, false, 'r'}, {".off", bv64, true, 'L'}, {".len", bv64, true, 'L'}, {".cap", bv64, true, 'L'}}
	case *types.Interface:
		return []Leaf{{".tag", bv64, false, 'T'}, {".pay", bv64, false, 'r'}}
	case *types.Struct:
		var out []Leaf
		for i := 0; i < u.NumFields(); i++ {
			f := u.Field(i)
			for _, l := range layout(f.Type()) {
				l.Path = "." + f.Name() + l.Path
				out = append(out, l)
			}
		}
		if len(out) == 0 {
			// empty struct: no leaves
			return nil
		}
		return out
	case *types.Array:
		el := layout(u.Elem())
		if len(el) == 1 && el[0].Sort.K != 'a' {
			return []Leaf{{"", ArrS(el[0].Sort), el[0].Signed, 'A'}}
		}
		return []Leaf{{"", bv64, false, 'f'}} // opaque
	case *types.Tuple:
		var out []Leaf
		for i := 0; i < u.Len(); i++ {
			for _, l := range layout(u.At(i).Type()) {
				l.Path = fmt.Sprintf("#%d", i) + l.Path
				out = append(out, l)
			}
		}
		return out
	}
	return []Leaf{{"", bv64, false, 'f'}}
}

// ---------- values ----------

// Val is a flattened symbolic value: one SMT term per leaf of its type's layout.
// A pointer whose target is known structurally carries Loc instead of a ref leaf.
type Val struct {
	T   types.Type
	L   []string
	Loc *Loc
	C   *big.Int // untyped integer constant (spec expressions only)
}

type Loc struct {
	Kind   byte   // 'f' field path in heap object, 'e' slice/array-region element, 'c' cell, 'g' global, 'a' element inside array-valued parent
	Base   string // heap key prefix, e.g. "H|bits.Writer", "M|uint8", "C|int", "G|aac.FrequencyTable"
	Path   string
	Ref    string
	Idx    string
	Parent *Loc
	T      types.Type // pointee type
}

func (v Val) isLoc() bool { return v.Loc != nil }

// slice component accessors (slice: ref off len cap; string: ref off len)
func (v Val) sRef() string { return v.L[0] }
func (v Val) sOff() string { return v.L[1] }
func (v Val) sLen() string { return v.L[2] }
func (v Val) sCap() string {
	if len(v.L) > 3 {
		return v.L[3]
	}
	return v.L[2]
}

// ---------- state ----------

type State struct {
	cur map[string]string // heap key -> current SMT symbol
}

func (s State) clone() State {
	m := make(map[string]string, len(s.cur)+4)
	for k, v := range s.cur {
		m[k] = v
	}
	return State{m}
}

func (s State) keys() []string {
	ks := make([]string, 0, len(s.cur))
	for k := range s.cur {
		ks = append(ks, k)
	}
	sort.Strings(ks)
	return ks
}

// sanitize a heap key into an SMT symbol fragment
func symSafe(s string) string {
	var b strings.Builder
	for _, r := range s {
		switch {
		case r >= 'a' && r <= 'z', r >= 'A' && r <= 'Z', r >= '0' && r <= '9', r == '_', r == '.':
			b.WriteRune(r)
		case r == '|':
			b.WriteString("!")
		case r == '*':
			b.WriteString("p.")
		case r == '[':
			b.WriteString("<")
		case r == ']':
			b.WriteString(">")
		default:
			b.WriteString("~")
		}
	}
	return b.String()
}

package main

// Encoder core: script building, symbols, heap access, allocation.

import (
	"fmt"
	"go/token"
	"go/types"
	"regexp"
	"strconv"
	"strings"

	"golang.org/x/tools/go/ssa"
)

type Obl struct {
	Name   string
	Kind   string
	Func   string
	Goal   string // Bool term that must be valid (already includes reach =>)
	Pos    token.Pos
	PosStr string
	Tags   []string
	Text   string // clause / expression text
	Line   int    // index into Enc.body where the marker sits
	Clause *Clause
	// results
	Status  string // unsat(discharged) sat unknown timeout error
	Solver  string
	Secs    float64
	Model   string
	Output  string
	Assumed bool // known finding etc.
}

type defMemoT struct {
	name string
	at   int
	line string
}

type WriteRec struct {
	Key      string
	Ref      string // "" = type-wide
	Lo, Hi   string // element range [Lo,Hi) inside a region (absolute indices); "" = whole object / region
	Reach    string
	Abstract bool // loop-head havoc: an abstraction of the body's writes, not a write itself
}

type Enc struct {
	ctx      *Ctx
	decl     []string
	declSeen map[string]bool
	body     []string
	obls     []*Obl
	n        int
	keySort  map[string]Sort
	universe map[string]bool // heap keys known (pass 2); nil in discovery pass
	seenKeys map[string]bool // keys touched (both passes)
	discover bool
	notes    map[string]bool
	fatal    []string
	writes   []WriteRec
	boxed    map[string]Val
	closures map[string]*ssa.Function
	oblNames map[string]int
	topFn    *ssa.Function
	mute     int // >0: do not record obligations (inlined callee bodies, scratch passes)
	assumes  int
	strLits  map[string]Val
	depth    int
	strLitRefs []string
	closureBinds map[string][]Val
	allocHook func(fr *Frame, st *State, reach string, x ssa.Instruction, ln string, et types.Type)
	opt *EncOpts
	curState *State // state of the instruction being encoded
	defMemo map[string]defMemoT
	paramVals []Val
	topTags map[string]bool
	assumed map[string]int
	retReach []string
	curReach string // reachability of the instruction being encoded
	pendLo, pendHi string // element range of the store being recorded
	goalMode bool // formulas currently evaluated become proof goals (quantifier index normalisation is for hypotheses only)
	noDefine int // >0 while building terms under a quantifier (bound variables must not escape into definitions)
	defs map[string]string // defined symbol -> its term
	usedContracts, usedNoContract, usedInline, devirtUsed, absUsed, definesUsed map[string]bool
	epochs    map[string]int
	epochUsed bool
	recDefs   map[*SpecFn]*recDef
}

func newEnc(ctx *Ctx) *Enc {
	return &Enc{ctx: ctx, declSeen: map[string]bool{}, keySort: map[string]Sort{}, seenKeys: map[string]bool{},
		notes: map[string]bool{}, boxed: map[string]Val{}, closures: map[string]*ssa.Function{}, oblNames: map[string]int{}, strLits: map[string]Val{}}
}

func (e *Enc) note(f string, a ...interface{}) { e.notes[fmt.Sprintf(f, a...)] = true }
func (e *Enc) fatalf(f string, a ...interface{}) {
	s := fmt.Sprintf(f, a...)
	for _, x := range e.fatal {
		if x == s {
			return
		}
	}
	e.fatal = append(e.fatal, s)
}

func (e *Enc) sym(prefix string) string {
	e.n++
	return symSafe(prefix) + "$" + strconv.Itoa(e.n)
}

func (e *Enc) declare(name string, s Sort) {
	if e.declSeen[name] {
		return
	}
	e.declSeen[name] = true
	e.decl = append(e.decl, fmt.Sprintf("(declare-fun %s () %s)", name, s))
}

func (e *Enc) fresh(prefix string, s Sort) string {
	n := e.sym(prefix)
	// fresh symbols are declared in order (body), so that truncation in scratch passes is clean
	e.body = append(e.body, fmt.Sprintf("(declare-fun %s () %s)", n, s))
	return n
}

var reSimple = regexp.MustCompile(`^[^\s()]+$`)

func (e *Enc) define(prefix string, s Sort, term string) string {
	if reSimple.MatchString(term) || strings.HasPrefix(term, "(_ bv") || e.noDefine > 0 {
		return term
	}
	// hash-consing: an identical term defined earlier (and still present in the script) is reused
	if e.defMemo == nil {
		e.defMemo = map[string]defMemoT{}
	}
	if m, ok := e.defMemo[term]; ok && m.at < len(e.body) && e.body[m.at] == m.line {
		return m.name
	}
	n := e.sym(prefix)
	line := fmt.Sprintf("(define-fun %s () %s %s)", n, s, term)
	e.defMemo[term] = defMemoT{n, len(e.body), line}
	e.body = append(e.body, line)
	if e.defs == nil {
		e.defs = map[string]string{}
	}
	e.defs[n] = term
	return n
}

func (e *Enc) assume(term string) {
	if term == "true" {
		return
	}
	if e.assumed == nil {
		e.assumed = map[string]int{}
	}
	// identical facts are asserted once per script position range (scratch passes truncate the body, so remember the position)
	if at, ok := e.assumed[term]; ok && at < len(e.body) && e.body[at] == "(assert "+term+")" {
		return
	}
	e.assumed[term] = len(e.body)
	e.assumes++
	e.body = append(e.body, "(assert "+term+")")
}

func (e *Enc) oblig(kind, what string, reach, cond string, pos token.Pos, tags []string, text string, cl *Clause) *Obl {
	goal := imp(reach, cond)
	if e.mute == 0 && e.topFn != nil {
		if c := e.ctx.contractOf(e.topFn); c != nil {
			for _, k := range c.TrustKinds {
				if k == kind || k == kind+"@"+strings.ReplaceAll(what, " ", "") {
					e.note("%s obligations of %s are assumed (trustkind)", kind, shortKey(e.ctx.funcKey(e.topFn)))
					return nil
				}
			}
		}
	}
	if e.mute > 0 {
		// callee-internal or scratch: panics there are the callee's own obligations; but execution continuing implies they held
		return nil
	}
	fn := e.ctx.funcKey(e.topFn)
	base := fmt.Sprintf("%s#%s@%s", fn, kind, what)
	e.oblNames[base]++
	name := base
	if e.oblNames[base] > 1 {
		name = fmt.Sprintf("%s~%d", base, e.oblNames[base])
	}
	o := &Obl{Name: name, Kind: kind, Func: fn, Goal: goal, Pos: pos, Tags: tags, Text: text, Clause: cl}
	if pos.IsValid() {
		p := e.ctx.fset.Position(pos)
		o.PosStr = fmt.Sprintf("%s:%d", p.Filename, p.Line)
	} else if cl != nil {
		o.PosStr = fmt.Sprintf("%s:%d", cl.File, cl.Line)
	}
	o.Line = len(e.body)
	e.body = append(e.body, ";;OBL "+strconv.Itoa(len(e.obls)))
	e.obls = append(e.obls, o)
	return o
}

// after an obligation site, execution continues only if the condition held
func (e *Enc) obligAndAssume(kind, what string, reach, cond string, pos token.Pos, tags []string, text string) {
	e.oblig(kind, what, reach, cond, pos, tags, text, nil)
	e.assume(imp(reach, cond))
}

// ---------- small term builders ----------

func and(xs ...string) string {
	var ys []string
	for _, x := range xs {
		if x == "true" || x == "" {
			continue
		}
		if x == "false" {
			return "false"
		}
		ys = append(ys, x)
	}
	switch len(ys) {
	case 0:
		return "true"
	case 1:
		return ys[0]
	}
	return "(and " + strings.Join(ys, " ") + ")"
}

func or(xs ...string) string {
	var ys []string
	for _, x := range xs {
		if x == "false" || x == "" {
			continue
		}
		if x == "true" {
			return "true"
		}
		ys = append(ys, x)
	}
	switch len(ys) {
	case 0:
		return "false"
	case 1:
		return ys[0]
	}
	return "(or " + strings.Join(ys, " ") + ")"
}

func not(x string) string {
	switch x {
	case "true":
		return "false"
	case "false":
		return "true"
	}
	if strings.HasPrefix(x, "(not ") && strings.HasSuffix(x, ")") && balanced(x[5:len(x)-1]) {
		return x[5 : len(x)-1]
	}
	return "(not " + x + ")"
}

func balanced(s string) bool {
	d := 0
	for i := 0; i < len(s); i++ {
		if s[i] == '(' {
			d++
		} else if s[i] == ')' {
			d--
			if d < 0 {
				return false
			}
		}
	}
	return d == 0
}

func imp(a, b string) string {
	if a == "true" {
		return b
	}
	if b == "true" || a == "false" {
		return "true"
	}
	return "(=> " + a + " " + b + ")"
}

func eq(a, b string) string {
	if a == b {
		return "true"
	}
	return "(= " + a + " " + b + ")"
}

func ite(c, a, b string) string {
	if c == "true" || a == b {
		return a
	}
	if c == "false" {
		return b
	}
	return "(ite " + c + " " + a + " " + b + ")"
}

func app(op string, xs ...string) string { return "(" + op + " " + strings.Join(xs, " ") + ")" }

func sel(a, i string) string      { return "(select " + a + " " + i + ")" }
func sto(a, i, v string) string   { return "(store " + a + " " + i + " " + v + ")" }
func bvadd(a, b string) string    { return "(bvadd " + a + " " + b + ")" }
func c64(v int64) string          { return bvInt(v, 64) }

// resize a bit-vector term
func resize(t string, from, to int, signed bool) string {
	if from == to {
		return t
	}
	if to < from {
		return fmt.Sprintf("((_ extract %d 0) %s)", to-1, t)
	}
	if signed {
		return fmt.Sprintf("((_ sign_extend %d) %s)", to-from, t)
	}
	return fmt.Sprintf("((_ zero_extend %d) %s)", to-from, t)
}

// ---------- heap ----------

func (e *Enc) keySortOf(key string, leaf Sort) Sort {
	if s, ok := e.keySort[key]; ok {
		return s
	}
	var s Sort
	switch key[0] {
	case 'H', 'C':
		s = ArrS(leaf)
	case 'M':
		s = ArrS(ArrS(leaf))
	default: // G, $
		s = leaf
	}
	e.keySort[key] = s
	return s
}

func (e *Enc) get(st *State, key string, leaf Sort) string {
	e.keySortOf(key, leaf)
	e.seenKeys[key] = true
	if s, ok := st.cur[key]; ok {
		return s
	}
	if !e.discover && e.universe != nil && !e.universe[key] {
		e.fatalf("internal: heap key %s not in universe", key)
	}
	n := symSafe(key) + "@0"
	e.declare(n, e.keySort[key])
	st.cur[key] = n
	return n
}

func (e *Enc) set(st *State, key string, leaf Sort, term string, ref string) {
	s := e.keySortOf(key, leaf)
	e.seenKeys[key] = true
	st.cur[key] = e.define(key, s, term)
	e.writes = append(e.writes, WriteRec{Key: key, Ref: ref, Reach: e.curReach, Lo: e.pendLo, Hi: e.pendHi})
}

func (e *Enc) leafTerm(st *State, loc *Loc, l Leaf) string {
	key := loc.Base + loc.Path + l.Path
	switch loc.Kind {
	case 'f', 'c':
		return sel(e.get(st, key, l.Sort), loc.Ref)
	case 'e':
		return sel(sel(e.get(st, key, l.Sort), loc.Ref), loc.Idx)
	case 'g':
		return e.get(st, key, l.Sort)
	case 'a':
		pl := layout(loc.Parent.T)
		if len(pl) != 1 {
			e.note("array-in-array location unsupported")
			return e.fresh("opaque", l.Sort)
		}
		return sel(e.leafTerm(st, loc.Parent, pl[0]), loc.Idx)
	}
	panic("bad loc kind")
}

func (e *Enc) load(st *State, loc *Loc) Val {
	ls := layout(loc.T)
	v := Val{T: loc.T, L: make([]string, len(ls))}
	for i, l := range ls {
		v.L[i] = e.define("ld", l.Sort, e.leafTerm(st, loc, l))
	}
	return v
}

func (e *Enc) storeLeaf(st *State, loc *Loc, l Leaf, term string) {
	key := loc.Base + loc.Path + l.Path
	switch loc.Kind {
	case 'f', 'c':
		e.set(st, key, l.Sort, sto(e.get(st, key, l.Sort), loc.Ref, term), loc.Ref)
	case 'e':
		cur := e.get(st, key, l.Sort)
		e.pendLo, e.pendHi = loc.Idx, bvadd(loc.Idx, c64(1))
		e.set(st, key, l.Sort, sto(cur, loc.Ref, sto(sel(cur, loc.Ref), loc.Idx, term)), loc.Ref)
		e.pendLo, e.pendHi = "", ""
	case 'g':
		e.set(st, key, l.Sort, term, "")
	case 'a':
		pl := layout(loc.Parent.T)
		if len(pl) != 1 {
			e.note("array-in-array store unsupported")
			return
		}
		old := e.leafTerm(st, loc.Parent, pl[0])
		e.storeLeaf(st, loc.Parent, pl[0], sto(old, loc.Idx, term))
	}
}

func (e *Enc) store(st *State, loc *Loc, v Val) {
	ls := layout(loc.T)
	if len(v.L) != len(ls) {
		if v.Loc != nil {
			// storing a structural pointer into memory: degrade to opaque ref
			e.note("pointer with structural target stored to memory (degraded to opaque)")
			v = Val{T: v.T, L: []string{e.fresh("opq", bv64)}}
		} else {
			e.fatalf("internal: store layout mismatch %s vs %s", typeKey(loc.T), typeKey(v.T))
			return
		}
	}
	for i, l := range ls {
		e.storeLeaf(st, loc, l, v.L[i])
	}
}

// locOfPtr derives the location a pointer value designates.
func (e *Enc) locOfPtr(v Val) *Loc {
	if v.Loc != nil {
		return v.Loc
	}
	pt := derefT(v.T)
	if pt == nil {
		e.fatalf("internal: deref of non-pointer %s", typeKey(v.T))
		return &Loc{Kind: 'c', Base: "C|?", Ref: "(_ bv0 64)", T: types.Typ[types.Int]}
	}
	switch u := pt.Underlying().(type) {
	case *types.Struct:
		return &Loc{Kind: 'f', Base: "H|" + typeKey(pt), Ref: v.L[0], T: pt}
	case *types.Array:
		_ = u
		// whole array value in region memory; handled by callers through arrayRegion
		return &Loc{Kind: 'R', Base: "M|" + typeKey(u.Elem()), Ref: v.L[0], T: pt}
	}
	return &Loc{Kind: 'c', Base: "C|" + typeKey(pt), Ref: v.L[0], T: pt}
}

func (e *Enc) loadPtr(st *State, v Val) Val {
	loc := e.locOfPtr(v)
	if loc.Kind == 'R' {
		ls := layout(loc.T)
		if len(ls) != 1 || ls[0].Sort.K != 'a' {
			e.note("load of non-scalar array value")
			return e.havocVal(loc.T, "arr")
		}
		return Val{T: loc.T, L: []string{sel(e.get(st, loc.Base, *ls[0].Sort.Elem), loc.Ref)}}
	}
	return e.load(st, loc)
}

func (e *Enc) storePtr(st *State, p Val, v Val) {
	loc := e.locOfPtr(p)
	if loc.Kind == 'R' {
		ls := layout(loc.T)
		if len(ls) != 1 || ls[0].Sort.K != 'a' {
			e.note("store of non-scalar array value")
			return
		}
		e.set(st, loc.Base, *ls[0].Sort.Elem, sto(e.get(st, loc.Base, *ls[0].Sort.Elem), loc.Ref, v.L[0]), loc.Ref)
		return
	}
	e.store(st, loc, v)
}

// ---------- fresh / zero values ----------

func (e *Enc) havocVal(t types.Type, prefix string) Val {
	ls := layout(t)
	v := Val{T: t, L: make([]string, len(ls))}
	for i, l := range ls {
		v.L[i] = e.fresh(prefix+l.Path, l.Sort)
	}
	return v
}

func zeroVal(t types.Type) Val {
	ls := layout(t)
	v := Val{T: t, L: make([]string, len(ls))}
	for i, l := range ls {
		v.L[i] = l.Sort.Zero()
	}
	return v
}

const maxLen = int64(1) << 48

// wfAssume adds the Go-level well-formedness facts of a value that comes from outside (params, heap loads, call results).
func (e *Enc) wfAssume(st *State, reach string, v Val) {
	if v.Loc != nil || v.T == nil {
		return
	}
	ls := layout(v.T)
	if len(ls) != len(v.L) {
		return
	}
	alloc := e.get(st, "$alloc", bv64)
	var facts []string
	for i := 0; i < len(ls); i++ {
		l := ls[i]
		if l.Kind == 'r' {
			isStr := strings.HasSuffix(l.Path, ".ref") && i+2 < len(ls) && strings.HasSuffix(ls[i+2].Path, ".len") &&
				!(i+3 < len(ls) && strings.HasSuffix(ls[i+3].Path, ".cap") && strings.TrimSuffix(ls[i+3].Path, ".cap") == strings.TrimSuffix(l.Path, ".ref"))
			if isStr {
				// strings are immutable: their storage lies in a region of references disjoint from everything allocated
				// (and therefore from every slice that can be written through); unsafe conversions are not modelled
				facts = append(facts, or(eq(v.L[i], c64(0)), and(app("bvuge", v.L[i], strBase), app("bvult", v.L[i], bvLit(bigPow2(63), 64)))))
			} else {
				facts = append(facts, app("bvult", v.L[i], alloc))
			}
		}
		if l.Kind == 'L' && strings.HasSuffix(l.Path, ".off") {
			off, ln := v.L[i], v.L[i+1]
			cp := ln
			if i+2 < len(ls) && strings.HasSuffix(ls[i+2].Path, ".cap") && strings.TrimSuffix(ls[i+2].Path, ".cap") == strings.TrimSuffix(l.Path, ".off") {
				cp = v.L[i+2]
			}
			facts = append(facts, app("bvsle", c64(0), off), app("bvsle", off, c64(maxLen)), app("bvsle", c64(0), ln), app("bvsle", ln, cp), app("bvsle", cp, c64(maxLen)))
			// nil slice has zero length and capacity
			facts = append(facts, imp(eq(v.L[i-1], c64(0)), and(eq(cp, c64(0)), eq(off, c64(0)))))
		}
		if l.Kind == 'T' {
			// nil interface: tag 0 <=> payload irrelevant; keep tag/pay consistent for nil
			facts = append(facts, imp(eq(v.L[i], c64(0)), eq(v.L[i+1], c64(0))))
			// modelling assumption: interface values coming from outside the function do not hold typed nil pointers
			facts = append(facts, imp(not(eq(v.L[i], c64(0))), not(eq(v.L[i+1], c64(0)))))
		}
	}
	if len(facts) > 0 {
		e.assume(imp(reach, and(facts...)))
	}
}

var strBase = bvLit(bigPow2(62), 64)

func (e *Enc) newRef(st *State) string {
	a := e.get(st, "$alloc", bv64)
	r := e.define("ref", bv64, a)
	e.set(st, "$alloc", bv64, bvadd(a, c64(1)), "")
	return r
}

// allocate a zeroed object/region of pointee type t and return pointer value
func (e *Enc) allocObj(st *State, t types.Type) Val {
	r := e.newRef(st)
	p := Val{T: types.NewPointer(t), L: []string{r}}
	switch u := t.Underlying().(type) {
	case *types.Array:
		for _, l := range layout(u.Elem()) {
			key := "M|" + typeKey(u.Elem()) + l.Path
			e.set(st, key, l.Sort, sto(e.get(st, key, l.Sort), r, ArrS(l.Sort).Zero()), r)
		}
	default:
		e.store(st, e.locOfPtr(p), zeroVal(t))
	}
	return p
}

func (e *Enc) typeID(t types.Type) string {
	return c64(int64(e.ctx.typeIDOf(t)))
}

package main

// Script assembly and the solver portfolio.

import (
	"bytes"
	"compress/gzip"
	"io"
	"context"
	"crypto/sha256"
	"encoding/hex"
	"fmt"
	"os"
	"os/exec"
	"path/filepath"
	"sort"
	"strconv"
	"strings"
	"sync"
	"time"
)

var scratchDir = "/verif/scratch"

type solverSpec struct {
	name string
	args func(file string, timeoutMs int, incremental bool) []string
}

var solvers = []solverSpec{
	{"z3-new", func(f string, t int, inc bool) []string { return []string{"z3-new", "-smt2", fmt.Sprintf("-t:%d", t), f} }},
	{"cvc5", func(f string, t int, inc bool) []string {
		a := []string{"cvc5", "--lang=smt2", fmt.Sprintf("--tlimit-per=%d", t)}
		if inc {
			a = append(a, "--incremental")
		}
		return append(a, f)
	}},
	{"z3", func(f string, t int, inc bool) []string { return []string{"z3", "-smt2", fmt.Sprintf("-t:%d", t), f} }},
}

func header() string {
	return "(set-option :produce-models true)\n(set-logic ALL)\n"
}

// batchScript: all obligations of one function checked in order in one incremental run.
func batchScript(res *FuncResult, selected map[int]bool) string {
	var b strings.Builder
	b.WriteString(header())
	for _, d := range res.Decl {
		b.WriteString(d)
		b.WriteByte('\n')
	}
	for _, l := range res.Script {
		if strings.HasPrefix(l, ";;OBL ") {
			i, _ := strconv.Atoi(l[6:])
			o := res.Obls[i]
			if selected[i] {
				fmt.Fprintf(&b, "(push 1)\n(assert (not %s))\n(echo \"@@ %d\")\n(check-sat)\n(pop 1)\n", o.Goal, i)
			}
			continue
		}
		b.WriteString(l)
		b.WriteByte('\n')
	}
	return b.String()
}

// singleScript: standalone query for obligation i (everything before its marker, negated goal).
func singleScript(res *FuncResult, i int, model bool) string {
	var b strings.Builder
	b.WriteString(header())
	for _, d := range res.Decl {
		b.WriteString(d)
		b.WriteByte('\n')
	}
	o := res.Obls[i]
	for li, l := range res.Script {
		if li >= o.Line {
			break
		}
		if strings.HasPrefix(l, ";;OBL ") {
			continue
		}
		b.WriteString(l)
		b.WriteByte('\n')
	}
	fmt.Fprintf(&b, "(assert (not %s))\n(check-sat)\n", o.Goal)
	if model {
		b.WriteString("(get-model)\n")
	}
	return b.String()
}

func runSolver(ctx context.Context, sp solverSpec, file string, timeoutMs int, inc bool) (string, float64) {
	args := sp.args(file, timeoutMs, inc)
	t0 := time.Now()
	cmd := exec.CommandContext(ctx, args[0], args[1:]...)
	var out bytes.Buffer
	cmd.Stdout = &out
	cmd.Stderr = &out
	cmd.Run()
	return out.String(), time.Since(t0).Seconds()
}

var tmpCounter int
var tmpMu sync.Mutex

func tmpFile(prefix string, content string) string {
	tmpMu.Lock()
	tmpCounter++
	n := tmpCounter
	tmpMu.Unlock()
	os.MkdirAll(scratchDir, 0o755)
	f := filepath.Join(scratchDir, fmt.Sprintf("%s-%d-%d.smt2", prefix, os.Getpid(), n))
	os.WriteFile(f, []byte(content), 0o644)
	return f
}

// cache of discharged queries: key = hash(script) ; value = solver name. Sound because scripts are regenerated from /repo on every run.
var cacheDir = "/verif/.cache"
var useCache = true

func cacheKey(script string) string {
	h := sha256.Sum256([]byte(script))
	return hex.EncodeToString(h[:16])
}

func cacheGet(script string) (string, bool) {
	if !useCache {
		return "", false
	}
	k := cacheKey(script)
	b, err := os.ReadFile(filepath.Join(cacheDir, k))
	if err != nil {
		if cacheIndexHas(k) {
			return "indexed", true
		}
		return "", false
	}
	return string(b), true
}

// The committed index /verif/cache_index.gz lists the content hashes of queries that a solver answered unsat in an earlier run
// (written by `govc cache-export` from /verif/.cache). A query is regenerated from /repo on every run and looked up by the hash
// of its full text, so a hit means "this exact query was discharged before"; any change to the code or a contract changes the
// text and misses. The thorough tier ignores both the directory and the index.
var cacheIndexOnce sync.Once
var cacheIndex map[string]bool

func cacheIndexHas(k string) bool {
	cacheIndexOnce.Do(func() {
		cacheIndex = map[string]bool{}
		f, err := os.Open("/verif/cache_index.gz")
		if err != nil {
			return
		}
		defer f.Close()
		zr, err := gzip.NewReader(f)
		if err != nil {
			return
		}
		data, _ := io.ReadAll(zr)
		for _, ln := range strings.Split(string(data), "\n") {
			if len(ln) == 32 {
				cacheIndex[ln] = true
			}
		}
	})
	return cacheIndex[k]
}

func cacheExport() {
	ents, _ := os.ReadDir(cacheDir)
	var keys []string
	for _, e := range ents {
		if len(e.Name()) == 32 {
			keys = append(keys, e.Name())
		}
	}
	cacheIndexHas("")
	for k := range cacheIndex {
		if _, err := os.Stat(filepath.Join(cacheDir, k)); err != nil {
			keys = append(keys, k)
		}
	}
	sort.Strings(keys)
	f, _ := os.Create("/verif/cache_index.gz")
	zw := gzip.NewWriter(f)
	zw.Write([]byte(strings.Join(keys, "\n") + "\n"))
	zw.Close()
	f.Close()
	fmt.Printf("cache index: %d entries\n", len(keys))
}

func cachePut(script, solver string) {
	if !useCache {
		return
	}
	os.MkdirAll(cacheDir, 0o755)
	os.WriteFile(filepath.Join(cacheDir, cacheKey(script)), []byte(solver), 0o644)
}

// discharge runs the obligations of one function: batch first, portfolio for the rest.
func discharge(res *FuncResult, selected map[int]bool, timeoutMs int) {
	if len(selected) == 0 {
		return
	}
	for i := range selected {
		res.Obls[i].Status = "unknown"
	}
	if len(res.Fatal) > 0 {
		for i := range selected {
			res.Obls[i].Status = "error"
			res.Obls[i].Output = "function outside verifier reach: " + strings.Join(res.Fatal, "; ")
		}
		return
	}
	// cached singles
	pending := map[int]bool{}
	for i := range selected {
		if s, ok := cacheGet(singleScript(res, i, false)); ok {
			res.Obls[i].Status = "unsat"
			res.Obls[i].Solver = s + " (cached)"
			continue
		}
		pending[i] = true
	}
	if len(pending) == 0 {
		return
	}
	// incremental batches, in chunks run concurrently (large functions have hundreds of obligations). A chunk has a wall-clock
	// budget; obligations it does not reach (a few slow queries before them used it up) go into another round without the
	// ones already answered.
	var secsMu sync.Mutex
	secs := 0.0
	runBatches := func(idxs []int) {
	sort.Ints(idxs)
	chunk := 40
	if len(idxs) > 320 {
		chunk = (len(idxs) + 7) / 8
	}
	var cwg sync.WaitGroup
	for c := 0; c < len(idxs); c += chunk {
		end := c + chunk
		if end > len(idxs) {
			end = len(idxs)
		}
		part := map[int]bool{}
		for _, i := range idxs[c:end] {
			part[i] = true
		}
		cwg.Add(1)
		go func(part map[int]bool) {
			defer cwg.Done()
			solverSem <- struct{}{}
			defer func() { <-solverSem }()
			script := batchScript(res, part)
			f := tmpFile("batch", script)
			budget := time.Duration(timeoutMs*(len(part)+2)) * time.Millisecond
			if budget > 90*time.Second {
				budget = 90 * time.Second // per-chunk cap: obligations not reached stay undecided
			}
			ctx, cancel := context.WithTimeout(context.Background(), budget)
			out, s1 := runSolver(ctx, solvers[0], f, timeoutMs, true)
			cancel()
			if !strings.Contains(out, "@@") {
				// the solver process did not start or died before the first query (seen under heavy machine load): once more
				time.Sleep(2 * time.Second)
				ctx2, cancel2 := context.WithTimeout(context.Background(), budget)
				var s2 float64
				out, s2 = runSolver(ctx2, solvers[0], f, timeoutMs, true)
				cancel2()
				s1 += s2
			}
			os.Remove(f)
			secsMu.Lock()
			secs += s1
			secsMu.Unlock()
			cur := -1
			for _, ln := range strings.Split(out, "\n") {
				ln = strings.TrimSpace(ln)
				if strings.HasPrefix(ln, "@@ ") || strings.HasPrefix(ln, "\"@@ ") {
					ln = strings.Trim(ln, "\"")
					cur, _ = strconv.Atoi(strings.TrimSpace(ln[3:]))
					continue
				}
				if cur >= 0 && (ln == "sat" || ln == "unsat" || ln == "unknown" || ln == "timeout") {
					o := res.Obls[cur]
					o.Status = ln
					o.Solver = solvers[0].name
					cur = -1
				} else if cur >= 0 && strings.HasPrefix(ln, "(error") {
					res.Obls[cur].Status = "error"
					res.Obls[cur].Output = ln
					cur = -1
				}
			}
		}(part)
	}
	cwg.Wait()
	}
	var idxs []int
	for i := range pending {
		idxs = append(idxs, i)
	}
	for round := 0; round < 4 && len(idxs) > 0; round++ {
		runBatches(idxs)
		var unreached []int
		for _, i := range idxs {
			if res.Obls[i].Status == "unknown" && res.Obls[i].Solver == "" {
				unreached = append(unreached, i)
			}
		}
		if len(unreached) == len(idxs) && round > 0 {
			break // no progress
		}
		idxs = unreached
	}
	per := secs / float64(len(pending))
	var retry []int
	for i := range pending {
		o := res.Obls[i]
		o.Secs = per
		if o.Status == "unsat" {
			cachePut(singleScript(res, i, false), o.Solver)
		} else {
			retry = append(retry, i)
		}
	}
	// portfolio on the rest (capped per function: a function with many undecided obligations is not going to be claimed anyway)
	sort.Ints(retry)
	if len(retry) > 12 {
		for _, i := range retry[12:] {
			if res.Obls[i].Status == "unknown" || res.Obls[i].Status == "" {
				res.Obls[i].Status = "unknown"
				res.Obls[i].Output = "not retried: more than 12 undecided obligations in this function"
			}
		}
		retry = retry[:12]
	}
	var wg sync.WaitGroup
	for _, i := range retry {
		wg.Add(1)
		go func(i int) {
			defer wg.Done()
			portfolio(res, i, timeoutMs)
		}(i)
	}
	wg.Wait()
}

var solverSem = make(chan struct{}, 16)

func portfolio(res *FuncResult, i int, timeoutMs int) {
	o := res.Obls[i]
	// stragglers get four times the batch timeout: results must not flip near the limit
	timeoutMs *= 4
	// first a goal-directed slice (sound for "unsat" only), with two neighbourhood sizes
	if len(res.Script) > 400 {
		for _, rounds := range []int{2, 4} {
			sf := tmpFile("slice", slicedScript(res, i, rounds))
			solverSem <- struct{}{}
			c0, cancel0 := context.WithTimeout(context.Background(), time.Duration(timeoutMs/2+1000)*time.Millisecond)
			out, secs := runSolver(c0, solvers[0], sf, timeoutMs/2, false)
			cancel0()
			<-solverSem
			os.Remove(sf)
			if strings.HasPrefix(strings.TrimSpace(out), "unsat") {
				o.Status, o.Solver, o.Secs = "unsat", solvers[0].name+" (sliced)", secs
				cachePut(singleScript(res, i, false), o.Solver)
				return
			}
		}
	}
	script := singleScript(res, i, true)
	f := tmpFile("q", script)
	defer os.Remove(f)
	ctx, cancel := context.WithCancel(context.Background())
	defer cancel()
	type ans struct {
		solver, status, out string
		secs                float64
	}
	ch := make(chan ans, len(solvers))
	for _, sp := range solvers {
		go func(sp solverSpec) {
			solverSem <- struct{}{}
			defer func() { <-solverSem }()
			c2, cancel2 := context.WithTimeout(ctx, time.Duration(timeoutMs+2000)*time.Millisecond)
			defer cancel2()
			out, secs := runSolver(c2, sp, f, timeoutMs, false)
			first := ""
			for _, ln := range strings.Split(out, "\n") {
				ln = strings.TrimSpace(ln)
				if ln == "sat" || ln == "unsat" || ln == "unknown" || ln == "timeout" {
					first = ln
					break
				}
			}
			if first == "" {
				first = "error"
			}
			ch <- ans{sp.name, first, out, secs}
		}(sp)
	}
	var best ans
	best.status = "unknown"
	for k := 0; k < len(solvers); k++ {
		a := <-ch
		if a.status == "unsat" || a.status == "sat" {
			best = a
			cancel()
			break
		}
		if best.out == "" || best.status == "error" {
			best = a
		}
	}
	o.Status = best.status
	o.Solver = best.solver
	o.Secs = best.secs
	if best.status == "sat" {
		o.Model = best.out
	} else if best.status != "unsat" {
		o.Output = truncate(best.out, 2000)
	}
	if o.Status == "unsat" {
		cachePut(singleScript(res, i, false), o.Solver)
	}
}

func truncate(s string, n int) string {
	if len(s) > n {
		return s[:n] + "..."
	}
	return s
}

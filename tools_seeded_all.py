#!/usr/bin/env python3
# runs every seeded change against the checks listed for it (its own property's check when registered, plus extra ones),
# records detection in /verif/seeded_results.json (used by tools_design.py for the DESIGN.md table)
import json,subprocess,os,sys
m=json.load(open('/verif/MANIFEST.json')); registered={c['property_id'] for c in m['checks']}
extra={'C17-a':['C13'],'C15-a':['C16'],'C14-a':['C16'],'C08-a':['C03'],'C02-a':['C01'],'C01-a':['C02']}
res={}
if os.path.exists('/verif/seeded_results.json'): res=json.load(open('/verif/seeded_results.json'))
only=sys.argv[1:]
for d in sorted(os.listdir('/verif/seeded')):
    if only and d not in only: continue
    meta=json.load(open('/verif/seeded/%s/meta.json'%d))
    prop=meta['property']
    checks=[c for c in [prop]+extra.get(d,[]) if c in registered]
    r=res.setdefault(d,{}); r['breaks']=meta['breaks']; r.setdefault('detected',[]); r.setdefault('missed',[])
    if not checks: r['note']='property not claimed: no check to run'; continue
    out=subprocess.run(['/verif/tools_run_seeded.sh','/verif/seeded/'+d]+checks,capture_output=True,text=True).stdout
    print(out[-600:])
    for c in checks:
        hit=('check=%s exit=1 violations='%c) in out and ('check=%s exit=1 violations=0'%c) not in out
        for lst in (r['detected'],r['missed']):
            if c in lst: lst.remove(c)
        (r['detected'] if hit else r['missed']).append(c)
    json.dump(res,open('/verif/seeded_results.json','w'),indent=1)
json.dump(res,open('/verif/seeded_results.json','w'),indent=1)

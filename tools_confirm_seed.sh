#!/bin/bash
# confirm a seeded mutant: $1 = property id, $2 = dir with patch.diff demo_test.go meta.json
# checks: applies cleanly, builds, full suite passes with patch, demo fails with patch, demo passes without patch
export GOFLAGS=-mod=mod GOPROXY=off GOSUMDB=off GOTOOLCHAIN=local
id=$1; src=$2; wt=/root/scratch/seedwt_$id
cd /repo && git worktree add -q --detach $wt f87a9e4 || exit 2
cd $wt
pkgdir=$(head -3 $src/demo_test.go | grep -o '[a-z/-]*/' | head -1)
pkgdir=$(python3 - "$src/demo_test.go" <<'PY'
import re,sys
s=open(sys.argv[1]).read()
head=s[:600]
m=re.search(r'(?:into|in|directory)\s+`?([A-Za-z0-9_/.\-]+?)/?`?[\s,(]',head)
cands=re.findall(r'\b((?:mp4|avc|hevc|sei|aac|av1|bits|cmd/[a-z0-9-]+|examples/[a-z0-9-]+))/?\b',head)
print(cands[0] if cands else (m.group(1) if m else ''))
PY
)
pkg=$(grep -m1 '^package ' $src/demo_test.go | awk '{print $2}')
echo "[$id] demo dir=$pkgdir package=$pkg"
res=ok
cp $src/demo_test.go $wt/$pkgdir/zz_seeded_demo_test.go
run=$(grep -o 'func Test[A-Za-z0-9_]*' $src/demo_test.go | sed 's/func //' | paste -sd'|')
# without patch: demo must pass
if go test -vet=off -count=1 -timeout 10m -run "^($run)\$" ./$pkgdir/ >/tmp/seed_$id.clean.log 2>&1; then echo "[$id] demo passes on clean tree"; else echo "[$id] DEMO FAILS ON CLEAN TREE"; res=bad; fi
rm $wt/$pkgdir/zz_seeded_demo_test.go
if git apply $src/patch.diff; then echo "[$id] patch applies"; else echo "[$id] PATCH DOES NOT APPLY"; res=bad; fi
if go build ./... >/tmp/seed_$id.build.log 2>&1 && go test -vet=off -count=1 -timeout 25m ./... >/tmp/seed_$id.suite.log 2>&1; then echo "[$id] suite passes with patch"; else echo "[$id] SUITE FAILS WITH PATCH"; res=bad; fi
cp $src/demo_test.go $wt/$pkgdir/zz_seeded_demo_test.go
if go test -vet=off -count=1 -timeout 10m -run "^($run)\$" ./$pkgdir/ >/tmp/seed_$id.mut.log 2>&1; then echo "[$id] DEMO PASSES WITH PATCH"; res=bad; else echo "[$id] demo fails with patch"; fi
cd /repo && git worktree remove --force $wt
echo "[$id] RESULT $res"

#!/bin/sh
# builds the verifier from files on disk only (offline)
set -e
cd /verif/govc
export GOFLAGS=-mod=mod GOPROXY=off GOSUMDB=off GOTOOLCHAIN=local
mkdir -p /verif/bin
go build -o /verif/bin/govc ./cmd/govc

#!/usr/bin/env python3
# adds "fixed" entries to known_findings.json for fix: commits of /repo that are not listed yet (never run by the checks)
import json,subprocess,re
kf=json.load(open('/verif/known_findings.json'))
have={e['commit'] for e in kf['fixed']}
rules=[(r'MdatBox\.ReadData|lazy','C08'),(r'MetaBox|MediaSegment\.Size|Box\.Size|Box\.EncodeSW|UnpackKey|\.Size\b','C02'),(r'File\.EncodeSW','C03'),(r'pps\.SeqParameterSetID|sps id|SPS through','C15'),(r'DecodeSenc|DecodeFile|Tfhd != nil|DecodeAlst|DecodeUUIDBoxSR|mp4\.|mp4:','C04')]
log=subprocess.run("git -C /repo log --reverse --format='%h\t%s'",shell=True,capture_output=True,text=True).stdout.splitlines()
for l in log:
    h,s=l.split('\t',1)
    if not s.startswith('fix:') or h in have: continue
    prop='C16'
    for rx,p in rules:
        if re.search(rx,s): prop=p;break
    kf['fixed'].append({"property":prop,"commit":h,"what":s[4:].strip(),"how_shown":"obligation of the function failed on the unfixed tree; demonstration in /verif/demos where present; fix re-verified: obligations discharge on the repaired tree"})
    print("added",h,prop,s[:90])
json.dump(kf,open('/verif/known_findings.json','w'),indent=1)

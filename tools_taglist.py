#!/usr/bin/env python3
# prints a regexp alternation of the functions that carry a clause tagged <TAG> in the contract files of a package
import re,sys,glob
tag=sys.argv[1]; pkgdir=sys.argv[2]
names=[]
for f in sorted(glob.glob(pkgdir+'/verif_contracts*.go')):
    cur=None
    for ln in open(f):
        m=re.match(r'\s*//@\s*func\s+(.+?)\s*$',ln)
        if m: cur=m.group(1); continue
        if re.match(r'\s*//@\s*(schema|pred|spec|abspred|absmethod|axiom|typeinv|typereq|devirt)\b',ln): cur=None; continue
        if cur and re.match(r'\s*//@\s*ensures\[[^\]]*\b%s\b'%tag,ln) and cur not in names: names.append(cur)
print('|'.join(re.escape(n) for n in names))

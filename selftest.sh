#!/bin/bash
# Must-fail corpus: every seeded property-breaking change listed below has to be reported by the named check
# (exit 1 with a VIOLATION line); on the unchanged tree the same checks have to pass. Run after every engine change.
# usage: ./selftest.sh [seed-id ...]   (default: all pairs in selftest_table.txt)
cd /verif
fail=0
while read -r seed chk; do
  [ -z "$seed" ] && continue
  case "$seed" in \#*) continue;; esac
  if [ $# -gt 0 ] && ! echo " $* " | grep -q " $seed "; then continue; fi
  out=$(./tools_run_seeded.sh /verif/seeded/$seed $chk 2>&1)
  if echo "$out" | grep -q "check=$chk exit=1 violations=[1-9]"; then
    echo "selftest: $seed detected by $chk"
  else
    echo "selftest: $seed NOT detected by $chk"; echo "$out" | tail -3; fail=1
  fi
done < /verif/selftest_table.txt
exit $fail

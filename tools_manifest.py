#!/usr/bin/env python3
# regenerates MANIFEST.json from the table below (run after adding a property check)
import json,subprocess
props={json.loads(l)['id']:json.loads(l) for l in open('/verif/properties.jsonl')}
TECH="contract-based deductive verification (VCs generated from go/ssa, discharged by z3/cvc5)"
checks={
 "C13":("proof","Deductive proof, per function, of contracts on the real bit writers/readers in /repo/bits: every write emits exactly the bytes of the packed value; the emulation-prevention writer is checked against the standard's decoder run as an independent monitor in the trusted writer model (never emits 00 00 0{0,1,2}, escapes only where required, decoded payload == intended payload); the emulation-removing reader returns the standard decoder's payload with byte/bit counters in the escaped stream; Exp-Golomb writer length in closed form; all loops by invariant, machine integers, no bound.",
        "Trusted: govc's SSA->SMT translation, the solvers, the models of io.Writer.Write / binary.Read / Seek (abstract streams with the standard's EBSP decoder as ghost monitor). Round trips over arbitrary call sequences are the composition of the per-call contracts (prefix preservation), argued, not one mechanised theorem; Exp-Golomb value round trip and non-seekable MoreRbspData not decided.", TECH),
 "C04":("proof","Deductive proof of panic-freedom (index, slice, nil, division, make, shift, type assertion), termination and -- for the count-driven slice-reader decoders -- a linear allocation bound, for 200+ box decoders of package mp4 on both decode paths, under one schema contract (header well-formed, payload inside the reader) that is itself an obligation at the registry call in DecodeBoxSR; reader-path decoders are reduced to their slice-reader twins through the proved contract of readBoxBody.",
        "21 decoders, DecodeFileSR, Info/Encode of decoded trees, File.AddChild and the ISM options are outside the claim (listed in the evidence); boxes other than mdat < 4 GiB; registry unmodified; child type follows from its name (assumed at 3 type assertions).", TECH),
 "C16":("proof","Deductive proof of panic-freedom (index, slice, nil, division, make, shift, type assertion, devirtualisation) and termination (loop variants, bounded by the abstract finite reader) for 330+ functions of avc, hevc, sei, aac, av1 and the bit readers, for every input byte string; loop invariants by Houdini over templates plus written ones; 30 genuine defects found this way were repaired by fix: commits and are now proved absent.",
        "Functions listed under not_decided in the evidence (22 hevc parsers, 4 avc/hevc scanners, writers) are outside the claim; heap/time budgets are covered only through termination measures, allocation bounds are not generated; samples < 4 GiB; maps without nil pointers.", TECH),
 "C03":("proof","Encoder half: for every type with both Encode(io.Writer) and EncodeSW(SliceWriter), either both methods are proved against the same trace specification (one schema clause applied to both: containers, dref, stsd, trep, meta, moof, init segment, fragment, media segment, file in both modes) or Encode is proved to be the canonical wrapper handing exactly the bytes EncodeSW produced to the writer (76 types); traces are ghost state of the writers, loops by invariant over recursive trace functions. The two decoder registries have identical key sets and pair each decoder with its SR twin. mdat is specified identically on the reader, slice-reader and lazy decode paths.",
        "Equal traces are read as equal bytes (trace model, definitional clauses listed in the evidence); pre-encode mutations are the same statements in both encoders but their equal effect is argued, not proved; decoder-path equivalence for boxes other than mdat and error-case agreement are not decided; 15 types pending (excluded, listed).", TECH),
 "C20":("other","Whole-library frame obligations computed from the SSA of every function: (F1) no store to package-level state outside init and the two registry mutators, (F2) no exported function writes through a []byte parameter except the documented in-place transformers. These are the sufficient conditions the property names; schedules themselves are not quantified over.",
        "Race freedom is argued from disjoint footprints; interprocedural flows of pointers into globals through return values are not followed; stdlib/runtime trusted.", "frame (write-set) analysis over go/ssa; no schedule exploration"),
}
m=json.load(open('/verif/MANIFEST.json'))
hooks=subprocess.run("git -C /repo log --format='%h %s' | grep 'verif hook' | awk '{print $1}'",shell=True,capture_output=True,text=True).stdout.split()
m['hooks']['source_commits']=hooks[::-1]
m['engines'][0]['serves_properties']=sorted(checks)
m['checks']=[]
for pid in sorted(checks):
    lvl,text,note,tech=checks[pid]
    m['checks'].append({"property_id":pid,"quick_cmd":"./check %s quick"%pid,"thorough_cmd":"./check %s thorough"%pid,"evidence_file":"/verif/evidence/%s.json"%pid,
      "replay_cmd_template":"cat {path}","engine":"govc","level_claimed":{"category":lvl,"text":text,"design_ref":"DESIGN.md section 4/"+pid},"level_note":note,"technique":tech})
na=json.load(open('/verif/na_reasons.json')) if __import__('os').path.exists('/verif/na_reasons.json') else {}
m['not_applicable']=[{"property_id":p,"reason":na.get(p,"check not built yet (engine and contracts under construction); see DESIGN.md")} for p in sorted(props) if p not in checks]
json.dump(m,open('/verif/MANIFEST.json','w'),indent=1)
print("checks:",sorted(checks))

#!/usr/bin/env python3
# rewrites the generated blocks of DESIGN.md (between <!-- BEGIN x --> / <!-- END x --> markers): fixed defects, seeded table
import json,re,os
p='/verif/DESIGN.md'; s=open(p).read()
def block(name, text):
    global s
    b='<!-- BEGIN %s -->'%name; e='<!-- END %s -->'%name
    if b not in s:
        s+='\n'+b+'\n'+e+'\n'
    s=re.sub(re.escape(b)+r'.*?'+re.escape(e), lambda m: b+'\n'+text+'\n'+e, s, flags=re.S)
kf=json.load(open('/verif/known_findings.json'))
rows=['| property | commit | defect |','|---|---|---|']
for e in kf['fixed']:
    rows.append('| %s | %s | %s |'%(e['property'],e['commit'],e['what'].replace('|','/')))
block('fixed', '\n'.join(rows))
rows=['| finding (not repaired) | property | obligation | what |','|---|---|---|---|']
for e in kf['findings']:
    rows.append('| known finding | %s | %s | %s |'%(e['property'],e['obligation'],e['what'].replace('|','/')))
block('findings','\n'.join(rows))
if os.path.exists('/verif/seeded_results.json'):
    sr=json.load(open('/verif/seeded_results.json'))
    rows=['| seeded change | breaks | detected by | not detected by (run) |','|---|---|---|---|']
    for k in sorted(sr):
        v=sr[k]
        rows.append('| %s | %s | %s | %s |'%(k,v.get('breaks','')[:160].replace('|','/'),', '.join(v.get('detected',[])) or '-',(', '.join(v.get('missed',[])) or '-')+((' — '+v['note'].replace('|','/')) if v.get('note') else '')))
    block('seeded','\n'.join(rows))
m=json.load(open('/verif/MANIFEST.json'))
props={json.loads(l)['id']:json.loads(l) for l in open('/verif/properties.jsonl')}
rows=['| property | status | what the check decides (short) |','|---|---|---|']
chk={c['property_id']:c for c in m['checks']}
na={n['property_id']:n for n in m['not_applicable']}
for pid in sorted(props):
    if pid in chk:
        c=chk[pid]; rows.append('| %s %s | claimed: %s | %s |'%(pid,props[pid]['title'][:60],c['level_claimed']['category'],c['level_claimed']['text'][:330].replace('|','/')+' ... Limits: '+c['level_note'][:260].replace('|','/')))
    else:
        rows.append('| %s %s | not claimed | %s |'%(pid,props[pid]['title'][:60],na[pid]['reason'][:500].replace('|','/')))
block('status','\n'.join(rows))
import glob
rows=['| check | obligations | discharged | functions under contract | wall (s, last run, cache warm) |','|---|---|---|---|---|']
for f in sorted(glob.glob('/verif/evidence/C*.json')):
    e=json.load(open(f)); c=e['coverage']
    rows.append('| %s | %s | %s | %s | %s |'%(e['property_id'],c.get('obligations'),c.get('discharged'),len(c.get('functions_under_contract') or []),e.get('wall_s')))
block('cost','\n'.join(rows))
open(p,'w').write(s)
print('DESIGN.md blocks updated')
